(* Frame-level theorems: per-frame legality (C05), sequencing (C05), reassembly (C04 and
   the message clause of C06), automatic replies (C07, C08). *)
From Coq Require Import ZArith List Bool Lia ZifyBool.
From WS Require Import Base.Res Base.Bytes Base.GenPrelude Base.Sweep
  Spec.Frame Spec.Utf8 Spec.Legal Gen.GenUtils Gen.GenAbnf Gen.GenCore
  Model.Recv Model.Conn Proofs.BytesLemmas Proofs.Utf8Proof Proofs.RecvSpec Proofs.ConnSpec.
Import ListNotations.
Open Scope Z_scope.

(* ================================================================================== *)
(* Facts about GENERATED definitions: everything below this block uses only these.     *)
(* ================================================================================== *)

Lemma OPCODE_CONT_eq : OPCODE_CONT = 0.   Proof. reflexivity. Qed.
Lemma OPCODE_TEXT_eq : OPCODE_TEXT = 1.   Proof. reflexivity. Qed.
Lemma OPCODE_BINARY_eq : OPCODE_BINARY = 2. Proof. reflexivity. Qed.
Lemma OPCODE_CLOSE_eq : OPCODE_CLOSE = 8. Proof. reflexivity. Qed.
Lemma OPCODE_PING_eq : OPCODE_PING = 9.   Proof. reflexivity. Qed.
Lemma OPCODE_PONG_eq : OPCODE_PONG = 10.  Proof. reflexivity. Qed.
Lemma OPCODES_eq : OPCODES = [0; 1; 2; 8; 9; 10]. Proof. reflexivity. Qed.

Lemma ping_reply_ok_eq d : ping_reply_ok d = (zlen d <? 126).
Proof. reflexivity. Qed.

Lemma is_valid_close_status_eq c :
  is_valid_close_status c =
  existsb (Z.eqb c) [1000; 1001; 1002; 1003; 1007; 1008; 1009; 1010; 1011; 1012; 1013; 1014]
  || ((3000 <=? c) && (c <? 5000)).
Proof. reflexivity. Qed.

Lemma validate_utf8_nil : validate_utf8 [] = true.
Proof. reflexivity. Qed.

(* the code's close-frame body check and whole per-frame check, restated without generated names *)
Definition close_check (d : bytes) (skip : bool) : res unit :=
  let n := zlen d in
  if n =? 0 then Ok tt
  else if n =? 1 then Raise Protocol
  else if (2 <? n) && negb skip && negb (validate_utf8 (zdrop 2 d)) then Raise Protocol
  else if is_valid_close_status (256 * byte_at d 0 + byte_at d 1) then Ok tt
  else Raise Protocol.

Definition validate_ref (fin r1 r2 r3 op : Z) (d : bytes) (skip : bool) : res unit :=
  if negb ((r1 =? 0) && (r2 =? 0) && (r3 =? 0)) then Raise Protocol
  else if negb (known_opcode op) then Raise Protocol
  else if is_control op && (fin =? 0) then Raise Protocol
  else if is_control op && (125 <? zlen d) then Raise Protocol
  else if op =? OP_CLOSE then close_check d skip
  else Ok tt.

Lemma geb_126 x : (x >=? 126) = (125 <? x).
Proof. lia. Qed.
Lemma gtb_2 x : (x >? 2) = (2 <? x).
Proof. lia. Qed.

Lemma close_branch_char d skip :
  zlen d <= 125 ->
  (let l_ := zlen d in
   if negb (negb (l_ =? 0)) then Ok tt
   else if (l_ =? 1) || (l_ >=? 126) then Raise Protocol
   else if (l_ >? 2) && negb skip && negb (validate_utf8 (zdrop 2 d)) then Raise Protocol
   else let code := 256 * byte_at d 0 + byte_at d 1 in
        if negb (is_valid_close_status code) then Raise Protocol else Ok tt)
  = close_check d skip.
Proof.
  intro H. unfold close_check. cbv zeta.
  rewrite negb_involutive, geb_126, gtb_2.
  destruct (zlen d =? 0); [reflexivity|].
  assert (E : (125 <? zlen d) = false) by lia. rewrite E, orb_false_r.
  destruct (zlen d =? 1); [reflexivity|].
  destruct ((2 <? zlen d) && negb skip && negb (validate_utf8 (zdrop 2 d))); [reflexivity|].
  destruct (is_valid_close_status _); reflexivity.
Qed.

Lemma abnf_validate_char fin r1 r2 r3 op d skip :
  abnf_validate fin r1 r2 r3 op d skip = validate_ref fin r1 r2 r3 op d skip.
Proof.
  unfold abnf_validate, validate_ref.
  rewrite OPCODES_eq, OPCODE_CLOSE_eq, OPCODE_PING_eq, OPCODE_PONG_eq.
  replace (negb (r1 =? 0) || negb (r2 =? 0) || negb (r3 =? 0))
    with (negb ((r1 =? 0) && (r2 =? 0) && (r3 =? 0)))
    by (destruct (r1 =? 0), (r2 =? 0), (r3 =? 0); reflexivity).
  destruct (negb ((r1 =? 0) && (r2 =? 0) && (r3 =? 0))); [reflexivity|].
  rewrite negb_involutive, geb_126.
  unfold known_opcode, is_data, is_control, OP_CONT, OP_TEXT, OP_BIN, OP_CLOSE, OP_PING, OP_PONG.
  cbn [existsb].
  (* split on the opcode *)
  destruct (Z.eq_dec op 8) as [->|N8].
  { cbn [Z.eqb Pos.eqb orb andb negb Z.leb Z.compare Pos.compare Pos.compare_cont].
    destruct (fin =? 0); [reflexivity|].
    destruct (125 <? zlen d) eqn:E; [reflexivity|].
    rewrite <- close_branch_char by lia. cbv zeta. rewrite geb_126, E. reflexivity. }
  destruct (Z.eq_dec op 9) as [->|N9].
  { cbn [Z.eqb Pos.eqb orb andb negb Z.leb Z.compare Pos.compare Pos.compare_cont].
    destruct (fin =? 0); [reflexivity|]. destruct (125 <? zlen d); reflexivity. }
  destruct (Z.eq_dec op 10) as [->|N10].
  { cbn [Z.eqb Pos.eqb orb andb negb Z.leb Z.compare Pos.compare Pos.compare_cont].
    destruct (fin =? 0); [reflexivity|]. destruct (125 <? zlen d); reflexivity. }
  assert (E8 : (op =? 8) = false) by lia.
  assert (E9 : (op =? 9) = false) by lia.
  assert (E10 : (op =? 10) = false) by lia.
  rewrite E8, E9, E10. cbn [orb].
  rewrite !orb_false_r.
  destruct (op =? 0) eqn:E0, (op =? 1) eqn:E1, (op =? 2) eqn:E2; cbn [orb negb andb];
    try reflexivity;
    (assert (E : (8 <=? op) = false) by lia; rewrite E; reflexivity).
Qed.

(* ================================================================================== *)
(* (A) Per-frame legality: the code's validator against RFC 6455 (C05)                 *)
(* ================================================================================== *)

Definition bit (z : Z) : Prop := z = 0 \/ z = 1.
Definition fields_ok (f : wframe) : Prop :=
  bit (h_fin (wh f)) /\ bit (h_rsv1 (wh f)) /\ bit (h_rsv2 (wh f)) /\ bit (h_rsv3 (wh f)) /\
  0 <= h_opcode (wh f) < 16 /\ bytes_ok (wpayload f).

Definition close_agree (c : Z) : bool :=
  match close_code c with
  | Legal => is_valid_close_status c
  | Illegal => negb (is_valid_close_status c)
  | Unconstrained => true
  end.

Lemma close_agree_sweep : forallb close_agree (zrange (Z.to_nat 65536) 0) = true.
Proof. vm_compute. reflexivity. Qed.

Lemma close_status_agree c : 0 <= c < 65536 -> close_agree c = true.
Proof. intro H. apply (forall_range _ _ _ close_agree_sweep). lia. Qed.

Lemma byte_at_0 b0 r : byte_at (b0 :: r) 0 = b0.
Proof. reflexivity. Qed.
Lemma byte_at_1 b0 b1 r : byte_at (b0 :: b1 :: r) 1 = b1.
Proof. reflexivity. Qed.
Lemma zdrop_2 {A} (b0 b1 : A) r : zdrop 2 (b0 :: b1 :: r) = r.
Proof. change (zdrop 2 (b0 :: b1 :: r)) with (zdrop 0 r). apply zdrop_0. Qed.

(* the three-valued agreement; the four theorems below are its corollaries.  Only the
   payload bytes need to be in range: the flag and opcode ranges are not used. *)
Lemma verdict_agree chk f : bytes_ok (wpayload f) ->
  match frame_verdict chk f with
  | Legal => code_verdict (negb chk) f = Ok tt
  | Illegal => code_verdict (negb chk) f = Raise Protocol
  | Unconstrained => True
  end.
Proof.
  destruct f as [[fin r1 r2 r3 op] key p].
  unfold frame_verdict, code_verdict.
  cbn [wh h_fin h_rsv1 h_rsv2 h_rsv3 h_opcode wpayload].
  intros Hp.
  rewrite abnf_validate_char. unfold validate_ref.
  destruct (negb ((r1 =? 0) && (r2 =? 0) && (r3 =? 0))); [reflexivity|].
  destruct (negb (known_opcode op)); [reflexivity|].
  destruct (is_control op) eqn:Ec; cbn [andb].
  2:{ unfold is_control in Ec. assert (E : (op =? OP_CLOSE) = false) by (unfold OP_CLOSE; lia).
      rewrite E. reflexivity. }
  destruct (fin =? 0); [reflexivity|].
  destruct (125 <? zlen p) eqn:E125; [reflexivity|].
  destruct (op =? OP_CLOSE); [|reflexivity].
  unfold close_check. cbv zeta.
  destruct (zlen p =? 0) eqn:E0; [reflexivity|].
  destruct (zlen p =? 1) eqn:E1; [reflexivity|].
  destruct p as [|b0 [|b1 reason]]; [ discriminate E0 | discriminate E1 | ].
  rewrite byte_at_0, byte_at_1, zdrop_2, negb_involutive.
  inversion Hp as [|? ? Hb0 Hp1]; subst. inversion Hp1 as [|? ? Hb1 Hr]; subst.
  rewrite (validator_correct reason Hr).
  assert (Hc : 0 <= 256 * b0 + b1 < 65536) by (unfold byte_ok in *; lia).
  pose proof (close_status_agree _ Hc) as Ha. unfold close_agree in Ha.
  (* (2 <? n) only matters when the reason is non-empty, and the empty reason is well formed *)
  assert (Hcond : (2 <? zlen (b0 :: b1 :: reason)) && chk && negb (wf_utf8 reason)
                  = chk && negb (wf_utf8 reason)).
  { destruct reason as [|z reason'].
    - cbn [wf_utf8 negb]. now rewrite !andb_false_r.
    - assert (E : (2 <? zlen (b0 :: b1 :: z :: reason')) = true)
        by (rewrite !zlen_cons; pose proof (zlen_nonneg reason'); lia).
      rewrite E. reflexivity. }
  rewrite Hcond.
  destruct (close_code (256 * b0 + b1)).
  - destruct (chk && negb (wf_utf8 reason)); [reflexivity|]. now rewrite Ha.
  - destruct (chk && negb (wf_utf8 reason)); [reflexivity|].
    apply negb_true_iff in Ha. now rewrite Ha.
  - destruct (chk && negb (wf_utf8 reason)); [reflexivity|exact I].
Qed.

Theorem C05_frame_sound : forall f, fields_ok f ->
  frame_verdict true f = Illegal -> code_verdict false f = Raise Protocol.
Proof. intros f H E. pose proof (verdict_agree true f (proj2 (proj2 (proj2 (proj2 (proj2 H)))))) as A. now rewrite E in A. Qed.

Theorem C05_frame_complete : forall f, fields_ok f ->
  frame_verdict true f = Legal -> code_verdict false f = Ok tt.
Proof. intros f H E. pose proof (verdict_agree true f (proj2 (proj2 (proj2 (proj2 (proj2 H)))))) as A. now rewrite E in A. Qed.

Theorem C05_frame_sound_skip : forall f, fields_ok f ->
  frame_verdict false f = Illegal -> code_verdict true f = Raise Protocol.
Proof. intros f H E. pose proof (verdict_agree false f (proj2 (proj2 (proj2 (proj2 (proj2 H)))))) as A. now rewrite E in A. Qed.

Theorem C05_frame_complete_skip : forall f, fields_ok f ->
  frame_verdict false f = Legal -> code_verdict true f = Ok tt.
Proof. intros f H E. pose proof (verdict_agree false f (proj2 (proj2 (proj2 (proj2 (proj2 H)))))) as A. now rewrite E in A. Qed.

(* ================================================================================== *)
(* handle_frame, opcode by opcode                                                      *)
(* ================================================================================== *)

Ltac gen_consts :=
  rewrite ?OPCODE_CONT_eq, ?OPCODE_TEXT_eq, ?OPCODE_BINARY_eq, ?OPCODE_CLOSE_eq,
          ?OPCODE_PING_eq, ?OPCODE_PONG_eq, ?ping_reply_ok_eq.
Ltac open_hf :=
  unfold handle_frame, cf_validate, cf_add, cf_is_fire, cf_extract, is_msg_opcode;
  gen_consts; cbv zeta.
Ltac zcmp := cbn [Z.eqb Pos.eqb orb andb negb].

Definition inprog (cf : cframe) : bool := negb (c_recving cf =? 0).

Lemma is_data_cases op : is_data op = true -> op = 0 \/ op = 1 \/ op = 2.
Proof. unfold is_data, OP_CONT, OP_TEXT, OP_BIN. lia. Qed.

Lemma hf_close fire skip control conn cf f : a_opcode f = 8 ->
  handle_frame fire skip control conn cf f =
  {| s_cf := cf; s_writes := if conn then [WClose] else []; s_out := Return 8 f |}.
Proof. intro Hop. open_hf. rewrite Hop. zcmp. reflexivity. Qed.

Lemma hf_ping fire skip control conn cf f : a_opcode f = 9 -> zlen (a_data f) <= 125 ->
  handle_frame fire skip control conn cf f =
  {| s_cf := cf; s_writes := [WPong (a_data f)]; s_out := if control then Return 9 f else Again |}.
Proof.
  intros Hop Hl. open_hf. rewrite Hop. zcmp.
  assert (E : (zlen (a_data f) <? 126) = true) by lia. rewrite E. reflexivity.
Qed.

Lemma hf_ping_long fire skip control conn cf f : a_opcode f = 9 -> 125 < zlen (a_data f) ->
  handle_frame fire skip control conn cf f =
  {| s_cf := cf; s_writes := []; s_out := Fail Protocol |}.
Proof.
  intros Hop Hl. open_hf. rewrite Hop. zcmp.
  assert (E : (zlen (a_data f) <? 126) = false) by lia. rewrite E. reflexivity.
Qed.

Lemma hf_pong fire skip control conn cf f : a_opcode f = 10 ->
  handle_frame fire skip control conn cf f =
  {| s_cf := cf; s_writes := []; s_out := if control then Return 10 f else Again |}.
Proof. intro Hop. open_hf. rewrite Hop. zcmp. reflexivity. Qed.

Lemma hf_unknown fire skip control conn cf f :
  is_data (a_opcode f) = false -> a_opcode f <> 8 -> a_opcode f <> 9 -> a_opcode f <> 10 ->
  handle_frame fire skip control conn cf f = {| s_cf := cf; s_writes := []; s_out := Again |}.
Proof.
  unfold is_data, OP_CONT, OP_TEXT, OP_BIN. intros Hd H8 H9 H10. open_hf.
  assert (E0 : (a_opcode f =? 0) = false) by lia.
  assert (E1 : (a_opcode f =? 1) = false) by lia.
  assert (E2 : (a_opcode f =? 2) = false) by lia.
  assert (E8 : (a_opcode f =? 8) = false) by lia.
  assert (E9 : (a_opcode f =? 9) = false) by lia.
  assert (E10 : (a_opcode f =? 10) = false) by lia.
  rewrite E0, E1, E2, E8, E9, E10. reflexivity.
Qed.

(* a data frame: either rejected by the sequencing check, or added (and possibly extracted) *)
Lemma hf_data fire skip control conn cf f : is_data (a_opcode f) = true ->
  handle_frame fire skip control conn cf f =
  match cf_validate cf f with
  | Raise e => {| s_cf := cf; s_writes := []; s_out := Fail e |}
  | Ok _ =>
    if cf_is_fire fire f then
      match cf_extract fire skip (cf_add cf f) f with
      | (Ok (op0, f'), cf3) => {| s_cf := cf3; s_writes := []; s_out := Return op0 f' |}
      | (Raise e, cf3) => {| s_cf := cf3; s_writes := []; s_out := Fail e |}
      end
    else {| s_cf := cf_add cf f; s_writes := []; s_out := Again |}
  end.
Proof.
  intro Hd. apply is_data_cases in Hd. unfold handle_frame, is_msg_opcode. gen_consts. cbv zeta.
  destruct Hd as [-> | [-> | ->]]; reflexivity.
Qed.

Lemma cf_validate_seq cf f : is_data (a_opcode f) = true ->
  cf_validate cf f = if seq_ok (inprog cf) (wframe_of f) then Ok tt else Raise Protocol.
Proof.
  intro Hd. apply is_data_cases in Hd.
  unfold cf_validate, seq_ok, inprog, is_msg_opcode, wframe_of, is_control, OP_CONT.
  cbn [wh h_opcode]. gen_consts.
  destruct (c_recving cf =? 0); destruct Hd as [-> | [-> | ->]]; reflexivity.
Qed.

(* ================================================================================== *)
(* (B) Sequencing (C05)                                                                *)
(* ================================================================================== *)

Theorem C05_seq_reject : forall fire skip control conn cf f,
  is_data (a_opcode f) = true -> seq_ok (inprog cf) (wframe_of f) = false ->
  handle_frame fire skip control conn cf f = {| s_cf := cf; s_writes := []; s_out := Fail Protocol |}.
Proof.
  intros fire skip control conn cf f Hd Hs.
  rewrite hf_data by assumption. rewrite cf_validate_seq by assumption. now rewrite Hs.
Qed.

(* an accepted data frame, in closed form *)
Definition cur_msg (cf : cframe) (f : abnf) : Z * bytes :=
  match c_data cf with
  | Some (op0, d) => (op0, d ++ a_data f)
  | None => (a_opcode f, a_data f)
  end.
Definition next_recving (cf : cframe) (f : abnf) : Z :=
  if negb (a_fin f =? 0) then 0
  else match c_data cf with
       | Some _ => c_recving cf
       | None => if (a_opcode f =? 1) || (a_opcode f =? 2) then a_opcode f else c_recving cf
       end.

Lemma hf_data_ok fire skip control conn cf f :
  is_data (a_opcode f) = true -> seq_ok (inprog cf) (wframe_of f) = true ->
  handle_frame fire skip control conn cf f =
  if negb (a_fin f =? 0) || fire then
    if negb fire && (fst (cur_msg cf f) =? 1) && negb skip && negb (validate_utf8 (snd (cur_msg cf f)))
    then {| s_cf := {| c_data := None; c_recving := next_recving cf f |}; s_writes := [];
            s_out := Fail Payload |}
    else {| s_cf := {| c_data := None; c_recving := next_recving cf f |}; s_writes := [];
            s_out := Return (fst (cur_msg cf f)) (with_data f (snd (cur_msg cf f))) |}
  else {| s_cf := {| c_data := Some (cur_msg cf f); c_recving := next_recving cf f |};
          s_writes := []; s_out := Again |}.
Proof.
  intros Hd Hs. rewrite hf_data by assumption. rewrite cf_validate_seq by assumption. rewrite Hs.
  unfold cf_is_fire, cf_extract, cf_add, cur_msg, next_recving, is_msg_opcode. gen_consts.
  destruct (c_data cf) as [[op0 d0]|]; destruct (negb (a_fin f =? 0));
    cbn [c_data c_recving fst snd orb]; destruct fire; cbn [negb andb]; try reflexivity;
    match goal with |- context [if ?c then (Raise Payload, _) else _] => destruct c; reflexivity end.
Qed.

(* State invariant needed by the second half of C05_seq_accept: a stored partial message
   implies that a message is in progress.  It holds initially and is preserved by every
   frame (cf_wf_init, cf_wf_step); without it the statement is false, see
   C05_seq_accept_counterexample. *)
Definition cf_wf (cf : cframe) : Prop := inprog cf = false -> c_data cf = None.

Lemma cf_wf_init : cf_wf cf_init.
Proof. intros _. reflexivity. Qed.

Lemma seq_next_data b f : is_data (a_opcode f) = true ->
  seq_next b (wframe_of f) = (a_fin f =? 0).
Proof. intro H. unfold seq_next, wframe_of. cbn [wh h_opcode h_fin]. now rewrite H. Qed.

Lemma next_recving_inprog cf f : cf_wf cf ->
  is_data (a_opcode f) = true -> seq_ok (inprog cf) (wframe_of f) = true ->
  negb (next_recving cf f =? 0) = (a_fin f =? 0).
Proof.
  intros Hwf Hd Hs. unfold next_recving.
  destruct (a_fin f =? 0); cbn [negb]; [|reflexivity].
  unfold cf_wf in Hwf. unfold seq_ok, is_control, wframe_of, OP_CONT in Hs. cbn [wh h_opcode] in Hs.
  apply is_data_cases in Hd.
  destruct (c_data cf) as [p|].
  - fold (inprog cf). destruct (inprog cf); [reflexivity|]. discriminate (Hwf eq_refl).
  - destruct Hd as [E | [E | E]]; rewrite E in *; cbn in Hs |- *; try reflexivity.
    exact Hs.
Qed.

Lemma hf_data_ok_recving fire skip control conn cf f :
  is_data (a_opcode f) = true -> seq_ok (inprog cf) (wframe_of f) = true ->
  c_recving (s_cf (handle_frame fire skip control conn cf f)) = next_recving cf f.
Proof.
  intros Hd Hs. rewrite hf_data_ok by assumption.
  destruct (negb (a_fin f =? 0) || fire); [|reflexivity].
  match goal with |- context [if ?c then _ else _] => destruct c; reflexivity end.
Qed.

Theorem C05_seq_accept_partial : forall fire skip control conn cf f,
  cf_wf cf ->
  is_data (a_opcode f) = true -> seq_ok (inprog cf) (wframe_of f) = true ->
  (forall e, s_out (handle_frame fire skip control conn cf f) = Fail e -> e = Payload) /\
  inprog (s_cf (handle_frame fire skip control conn cf f)) = seq_next (inprog cf) (wframe_of f).
Proof.
  intros fire skip control conn cf f Hwf Hd Hs. split.
  - intro e. rewrite hf_data_ok by assumption.
    destruct (negb (a_fin f =? 0) || fire); [|discriminate].
    match goal with |- context [if ?c then _ else _] => destruct c end; cbn [s_out]; intro H;
      [now inversion H | discriminate].
  - unfold inprog at 1. rewrite hf_data_ok_recving by assumption.
    rewrite seq_next_data by assumption. now apply next_recving_inprog.
Qed.

(* the first conjunct needs no invariant *)
Theorem C05_seq_accept_fail : forall fire skip control conn cf f e,
  is_data (a_opcode f) = true -> seq_ok (inprog cf) (wframe_of f) = true ->
  s_out (handle_frame fire skip control conn cf f) = Fail e -> e = Payload.
Proof.
  intros fire skip control conn cf f e Hd Hs. rewrite hf_data_ok by assumption.
  destruct (negb (a_fin f =? 0) || fire); [|discriminate].
  match goal with |- context [if ?c then _ else _] => destruct c end; cbn [s_out]; intro H;
    [now inversion H | discriminate].
Qed.

(* C05_seq_accept as literally stated (arbitrary cf) is false: a state holding a stored
   partial message while no message is in progress accepts a first fragment but does not
   enter the in-progress state.  Such a state is unreachable (cf_wf is invariant). *)
Lemma C05_seq_accept_counterexample :
  let cf := {| c_data := Some (1, []); c_recving := 0 |} in
  let f := {| a_fin := 0; a_rsv1 := 0; a_rsv2 := 0; a_rsv3 := 0; a_opcode := 1; a_mask := 0; a_data := [] |} in
  is_data (a_opcode f) = true /\ seq_ok (inprog cf) (wframe_of f) = true /\
  forall fire skip control conn,
    inprog (s_cf (handle_frame fire skip control conn cf f)) = false /\
    seq_next (inprog cf) (wframe_of f) = true.
Proof.
  cbv zeta. split; [reflexivity|]. split; [reflexivity|].
  intros [] [] control conn; split; reflexivity.
Qed.

(* cf_wf is an invariant of handle_frame, whatever arrives *)
Lemma hf_cf_cases fire skip control conn cf f :
  s_cf (handle_frame fire skip control conn cf f) = cf \/
  (is_data (a_opcode f) = true /\ seq_ok (inprog cf) (wframe_of f) = true).
Proof.
  destruct (is_data (a_opcode f)) eqn:Hd.
  - destruct (seq_ok (inprog cf) (wframe_of f)) eqn:Hs; [now right|].
    left. now rewrite C05_seq_reject.
  - left. destruct (Z.eq_dec (a_opcode f) 8) as [E|N8]; [now rewrite hf_close|].
    destruct (Z.eq_dec (a_opcode f) 10) as [E|N10]; [now rewrite hf_pong|].
    destruct (Z.eq_dec (a_opcode f) 9) as [E|N9]; [|now rewrite hf_unknown].
    destruct (Z_le_gt_dec (zlen (a_data f)) 125); [now rewrite hf_ping | rewrite hf_ping_long by lia; reflexivity].
Qed.

Lemma cf_wf_step fire skip control conn cf f :
  cf_wf cf -> cf_wf (s_cf (handle_frame fire skip control conn cf f)).
Proof.
  intro Hwf. destruct (hf_cf_cases fire skip control conn cf f) as [E | [Hd Hs]]; [now rewrite E|].
  unfold cf_wf, inprog. rewrite hf_data_ok_recving by assumption.
  rewrite next_recving_inprog by assumption. intro Hfin.
  rewrite hf_data_ok by assumption. rewrite Hfin. cbn [negb orb].
  match goal with |- context [if ?c then _ else _] => destruct c; reflexivity end.
Qed.

(* the reassembly states a WebSocket object can actually be in: from cf_init, by any frames
   under any flags *)
Inductive cf_reachable : cframe -> Prop :=
  | reach_init : cf_reachable cf_init
  | reach_step : forall cf fire skip control conn f,
      cf_reachable cf -> cf_reachable (s_cf (handle_frame fire skip control conn cf f)).

Lemma cf_reachable_wf cf : cf_reachable cf -> cf_wf cf.
Proof. induction 1; [apply cf_wf_init | now apply cf_wf_step]. Qed.

Theorem C05_seq_accept_reachable : forall fire skip control conn cf f,
  cf_reachable cf ->
  is_data (a_opcode f) = true -> seq_ok (inprog cf) (wframe_of f) = true ->
  (forall e, s_out (handle_frame fire skip control conn cf f) = Fail e -> e = Payload) /\
  inprog (s_cf (handle_frame fire skip control conn cf f)) = seq_next (inprog cf) (wframe_of f).
Proof. intros. apply C05_seq_accept_partial; [now apply cf_reachable_wf | assumption | assumption]. Qed.

(* ================================================================================== *)
(* (C) Reassembly (C04, message clause of C06)                                         *)
(* ================================================================================== *)

Lemma legal_facts chk f : frame_verdict chk f = Legal ->
  known_opcode (h_opcode (wh f)) = true /\
  (is_control (h_opcode (wh f)) = true -> zlen (wpayload f) <= 125).
Proof.
  unfold frame_verdict.
  destruct (negb ((h_rsv1 (wh f) =? 0) && (h_rsv2 (wh f) =? 0) && (h_rsv3 (wh f) =? 0))); [discriminate|].
  destruct (known_opcode (h_opcode (wh f))); cbn [negb]; [|discriminate].
  destruct (is_control (h_opcode (wh f))); [|intros _; split; [reflexivity|discriminate]].
  destruct (h_fin (wh f) =? 0); [discriminate|].
  destruct (125 <? zlen (wpayload f)) eqn:E; [discriminate|].
  intros _. split; [reflexivity|]. intros _. lia.
Qed.

Lemma known_cases op : known_opcode op = true ->
  is_data op = true \/ op = 8 \/ op = 9 \/ op = 10.
Proof.
  unfold known_opcode, OP_CLOSE, OP_PING, OP_PONG. destruct (is_data op); [now left|]. right. lia.
Qed.

Lemma data_not_control op : is_data op = true -> is_control op = false.
Proof. intro H. apply is_data_cases in H. unfold is_control. lia. Qed.

Lemma reassemble_control acc f r : is_control (a_opcode f) = true ->
  reassemble acc (wframe_of f :: r) = reassemble acc r.
Proof. intro H. cbn [reassemble wframe_of wh h_opcode]. now rewrite H. Qed.

Lemma reassemble_data cf f r : is_data (a_opcode f) = true ->
  reassemble (c_data cf) (wframe_of f :: r) =
  if a_fin f =? 0 then reassemble (Some (cur_msg cf f)) r else cur_msg cf f :: reassemble None r.
Proof.
  intro H. cbn [reassemble wframe_of wh h_opcode h_fin wpayload].
  rewrite (data_not_control _ H). unfold cur_msg.
  destruct (c_data cf) as [[op0 d0]|]; reflexivity.
Qed.

(* non-fire mode: the stored partial message is exactly the message in progress *)
Definition nf_inv (cf : cframe) : Prop :=
  match c_data cf with
  | None => c_recving cf = 0
  | Some (op0, d) => (op0 = 1 \/ op0 = 2) /\ c_recving cf = op0 /\ bytes_ok d
  end.

Lemma nf_inv_init : nf_inv cf_init.
Proof. reflexivity. Qed.

Lemma nf_inv_wf cf : nf_inv cf -> cf_wf cf.
Proof.
  unfold nf_inv, cf_wf, inprog. destruct (c_data cf) as [[op0 d0]|]; [|reflexivity].
  intros (Hop & Hr & _) H. lia.
Qed.

Lemma nf_cur cf f : nf_inv cf -> abnf_ok f ->
  is_data (a_opcode f) = true -> seq_ok (inprog cf) (wframe_of f) = true ->
  (fst (cur_msg cf f) = 1 \/ fst (cur_msg cf f) = 2) /\ bytes_ok (snd (cur_msg cf f)) /\
  (a_fin f = 0 -> next_recving cf f = fst (cur_msg cf f)).
Proof.
  unfold nf_inv, cur_msg, next_recving, abnf_ok. intros Hinv (Hfin & Hok) Hd Hs.
  destruct (c_data cf) as [[op0 d0]|]; cbn [fst snd].
  - destruct Hinv as (Hop & Hr & Hd0). split; [assumption|]. split; [now apply bytes_ok_app|].
    intros ->. exact Hr.
  - unfold seq_ok, inprog, is_control, wframe_of, OP_CONT in Hs. cbn [wh h_opcode] in Hs.
    rewrite Hinv in Hs. apply is_data_cases in Hd.
    assert (Hop : a_opcode f = 1 \/ a_opcode f = 2)
      by (destruct Hd as [E | [E | E]]; rewrite E in Hs |- *; cbn in Hs; [discriminate | now left | now right]).
    split; [assumption|]. split; [assumption|].
    intros ->. cbn [Z.eqb negb]. destruct Hop as [-> | ->]; reflexivity.
Qed.

Lemma reassembly_gen skip fs : forall conn cf,
  nf_inv cf -> Forall abnf_ok fs ->
  legal_seq (negb skip) (inprog cf) (map wframe_of fs) = true -> no_close fs = true ->
  filter is_data_obs (run_frames false skip false conn cf fs)
  = map (judge_msg skip) (reassemble (c_data cf) (map wframe_of fs)).
Proof.
  induction fs as [|f r IH]; intros conn cf Hinv Hall Hleg Hnc; [reflexivity|].
  inversion Hall as [|? ? Hf Hr]; subst.
  cbn [map legal_seq] in Hleg. cbn [no_close forallb] in Hnc.
  apply andb_prop in Hnc. destruct Hnc as [Hnc8 Hncr]. fold (no_close r) in Hncr.
  destruct (frame_verdict (negb skip) (wframe_of f)) eqn:V; try discriminate Hleg.
  cbn [andb] in Hleg. apply andb_prop in Hleg. destruct Hleg as [Hs Hleg].
  destruct (legal_facts _ _ V) as [Hk Hlen]. cbn [wframe_of wh h_opcode wpayload] in Hk, Hlen.
  unfold OP_CLOSE in Hnc8.
  cbn [map run_frames].
  destruct (known_cases _ Hk) as [Hd | [E | [E | E]]].
  - (* data frame *)
    rewrite (seq_next_data _ _ Hd) in Hleg.
    rewrite <- (next_recving_inprog cf f (nf_inv_wf _ Hinv) Hd Hs) in Hleg.
    destruct (nf_cur cf f Hinv Hf Hd Hs) as (Hop & Hok & Hrv).
    rewrite reassemble_data by assumption.
    rewrite hf_data_ok by assumption. rewrite orb_false_r. cbn [negb andb].
    destruct Hf as [[Hfin | Hfin] _].
    + (* not final: stored *)
      rewrite Hfin. cbn [Z.eqb negb s_writes s_out s_cf map app].
      rewrite IH; [reflexivity | | assumption | | assumption].
      * unfold nf_inv. cbn [c_data c_recving]. destruct (cur_msg cf f) as [op0 d0].
        cbn [fst snd] in *. auto.
      * unfold inprog at 1. cbn [c_recving]. exact Hleg.
    + (* final: the whole message is delivered, or fails the UTF-8 check *)
      rewrite Hfin. cbn [Z.eqb negb].
      assert (Hnr : next_recving cf f = 0) by (unfold next_recving; rewrite Hfin; reflexivity).
      rewrite Hnr in *.
      assert (IH' : forall conn',
        filter is_data_obs (run_frames false skip false conn' {| c_data := None; c_recving := 0 |} r)
        = map (judge_msg skip) (reassemble None (map wframe_of r))).
      { intro conn'. apply (IH conn' {| c_data := None; c_recving := 0 |}); try assumption. reflexivity. }
      cbn [map]. unfold judge_msg at 1. destruct (cur_msg cf f) as [op0 d0]. cbn [fst snd] in *.
      unfold OP_TEXT. rewrite (validator_correct d0 Hok).
      destruct ((op0 =? 1) && negb skip && negb (wf_utf8 d0));
        cbn [s_writes s_out s_cf map app filter is_data_obs with_data a_fin a_data].
      * rewrite IH'. reflexivity.
      * assert (Hdo : is_data op0 = true) by (unfold is_data, OP_CONT, OP_TEXT, OP_BIN; lia).
        rewrite Hdo, IH', Hfin. reflexivity.
  - (* close: excluded *)
    rewrite E in Hnc8. discriminate Hnc8.
  - (* ping *)
    assert (Hc : is_control (a_opcode f) = true) by (rewrite E; reflexivity).
    assert (Hnd : is_data (a_opcode f) = false) by (rewrite E; reflexivity).
    rewrite reassemble_control by assumption.
    unfold seq_next in Hleg. cbn [wframe_of wh h_opcode] in Hleg. rewrite Hnd in Hleg.
    rewrite hf_ping by auto.
    cbn [s_writes s_out s_cf map app write_obs filter is_data_obs].
    now apply IH.
  - (* pong *)
    assert (Hc : is_control (a_opcode f) = true) by (rewrite E; reflexivity).
    assert (Hnd : is_data (a_opcode f) = false) by (rewrite E; reflexivity).
    rewrite reassemble_control by assumption.
    unfold seq_next in Hleg. cbn [wframe_of wh h_opcode] in Hleg. rewrite Hnd in Hleg.
    rewrite hf_pong by auto.
    cbn [s_writes s_out s_cf map app write_obs filter is_data_obs].
    now apply IH.
Qed.

Theorem C04_reassembly : forall skip conn fs,
  Forall abnf_ok fs -> frames_legal skip fs = true -> no_close fs = true ->
  filter is_data_obs (run_frames false skip false conn cf_init fs)
  = map (judge_msg skip) (reassemble None (map wframe_of fs)).
Proof.
  intros skip conn fs Hall Hleg Hnc.
  apply (reassembly_gen skip fs conn cf_init nf_inv_init Hall Hleg Hnc).
Qed.

(* ---- per-fragment (fire_cont_frame) mode ---- *)
Lemma per_fragment_data f r : is_data (a_opcode f) = true ->
  per_fragment (wframe_of f :: r) = (a_opcode f, a_fin f, a_data f) :: per_fragment r.
Proof.
  intro H. unfold per_fragment. cbn [filter wframe_of wh h_opcode]. rewrite H. reflexivity.
Qed.
Lemma per_fragment_skip f r : is_data (a_opcode f) = false ->
  per_fragment (wframe_of f :: r) = per_fragment r.
Proof.
  intro H. unfold per_fragment. cbn [filter wframe_of wh h_opcode]. rewrite H. reflexivity.
Qed.

Definition deliver_frag (t : Z * Z * bytes) : fobs := let '(op, fin, d) := t in ODeliver op fin d.

Lemma fire_gen skip fs : forall conn cf,
  c_data cf = None -> Forall abnf_ok fs ->
  legal_seq (negb skip) (inprog cf) (map wframe_of fs) = true -> no_close fs = true ->
  filter is_data_obs (run_frames true skip false conn cf fs)
  = map deliver_frag (per_fragment (map wframe_of fs)).
Proof.
  induction fs as [|f r IH]; intros conn cf Hinv Hall Hleg Hnc; [reflexivity|].
  inversion Hall as [|? ? Hf Hr]; subst.
  cbn [map legal_seq] in Hleg. cbn [no_close forallb] in Hnc.
  apply andb_prop in Hnc. destruct Hnc as [Hnc8 Hncr]. fold (no_close r) in Hncr.
  destruct (frame_verdict (negb skip) (wframe_of f)) eqn:V; try discriminate Hleg.
  cbn [andb] in Hleg. apply andb_prop in Hleg. destruct Hleg as [Hs Hleg].
  destruct (legal_facts _ _ V) as [Hk Hlen]. cbn [wframe_of wh h_opcode wpayload] in Hk, Hlen.
  unfold OP_CLOSE in Hnc8.
  cbn [map run_frames].
  assert (Hwf : cf_wf cf) by (intros _; exact Hinv).
  destruct (known_cases _ Hk) as [Hd | [E | [E | E]]].
  - rewrite (seq_next_data _ _ Hd) in Hleg.
    rewrite <- (next_recving_inprog cf f Hwf Hd Hs) in Hleg.
    rewrite per_fragment_data by assumption.
    rewrite hf_data_ok by assumption. rewrite orb_true_r. cbn [negb andb].
    unfold cur_msg. rewrite Hinv.
    cbn [fst snd s_writes s_out s_cf map app filter is_data_obs with_data a_fin a_data deliver_frag].
    rewrite Hd. f_equal. now apply IH.
  - rewrite E in Hnc8. discriminate Hnc8.
  - assert (Hnd : is_data (a_opcode f) = false) by (rewrite E; reflexivity).
    rewrite per_fragment_skip by assumption.
    unfold seq_next in Hleg. cbn [wframe_of wh h_opcode] in Hleg. rewrite Hnd in Hleg.
    rewrite hf_ping by (auto; apply Hlen; rewrite E; reflexivity).
    cbn [s_writes s_out s_cf map app write_obs filter is_data_obs].
    now apply IH.
  - assert (Hnd : is_data (a_opcode f) = false) by (rewrite E; reflexivity).
    rewrite per_fragment_skip by assumption.
    unfold seq_next in Hleg. cbn [wframe_of wh h_opcode] in Hleg. rewrite Hnd in Hleg.
    rewrite hf_pong by auto.
    cbn [s_writes s_out s_cf map app write_obs filter is_data_obs].
    now apply IH.
Qed.

Theorem C04_fire : forall skip conn fs,
  Forall abnf_ok fs -> frames_legal skip fs = true -> no_close fs = true ->
  filter is_data_obs (run_frames true skip false conn cf_init fs)
  = map (fun t => let '(op, fin, d) := t in ODeliver op fin d) (per_fragment (map wframe_of fs)).
Proof.
  intros skip conn fs Hall Hleg Hnc.
  apply (fire_gen skip fs conn cf_init eq_refl Hall Hleg Hnc).
Qed.

(* ================================================================================== *)
(* (D) Automatic replies (C07, C08)                                                    *)
(* ================================================================================== *)

Theorem C07_only_replies : forall fire skip control conn cf f,
  a_opcode f <> OP_PING -> a_opcode f <> OP_CLOSE ->
  s_writes (handle_frame fire skip control conn cf f) = [].
Proof.
  unfold OP_PING, OP_CLOSE. intros fire skip control conn cf f H9 H8.
  destruct (is_data (a_opcode f)) eqn:Hd.
  - destruct (seq_ok (inprog cf) (wframe_of f)) eqn:Hs.
    + rewrite hf_data_ok by assumption.
      destruct (negb (a_fin f =? 0) || fire); [|reflexivity].
      match goal with |- context [if ?c then _ else _] => destruct c; reflexivity end.
    + now rewrite C05_seq_reject.
  - destruct (Z.eq_dec (a_opcode f) 10) as [E|N10]; [now rewrite hf_pong|].
    now rewrite hf_unknown.
Qed.

Theorem C07_one_pong : forall fire skip control conn cf f,
  a_opcode f = OP_PING -> zlen (a_data f) <= 125 ->
  s_writes (handle_frame fire skip control conn cf f) = [WPong (a_data f)].
Proof. unfold OP_PING. intros. now rewrite hf_ping. Qed.

(* all cases at once *)
Lemma writes_char fire skip control conn cf f :
  (a_opcode f = OP_PING -> zlen (a_data f) <= 125) ->
  s_writes (handle_frame fire skip control conn cf f) =
  if a_opcode f =? OP_PING then [WPong (a_data f)]
  else if (a_opcode f =? OP_CLOSE) && conn then [WClose] else [].
Proof.
  intro Hp. unfold OP_PING, OP_CLOSE in *.
  destruct (a_opcode f =? 9) eqn:E9.
  - apply C07_one_pong; unfold OP_PING; [lia | apply Hp; lia].
  - destruct (a_opcode f =? 8) eqn:E8; cbn [andb].
    + rewrite hf_close by lia. reflexivity.
    + apply C07_only_replies; unfold OP_PING, OP_CLOSE; lia.
Qed.

Lemma out_not_pong (o : outcome) :
  filter is_pong_obs (match o with
                      | Return op f' => [ODeliver op (a_fin f') (a_data f')]
                      | Fail e => [OFail e]
                      | Again => []
                      end) = [].
Proof. destruct o; reflexivity. Qed.

Theorem C07_pongs : forall fire skip control fs conn cf,
  Forall (fun f => a_opcode f = OP_PING -> zlen (a_data f) <= 125) fs ->
  filter is_pong_obs (run_frames fire skip control conn cf fs)
  = map OPong (pongs_owed (map wframe_of fs)).
Proof.
  intros fire skip control fs. induction fs as [|f r IH]; intros conn cf Hall; [reflexivity|].
  inversion Hall as [|? ? Hf Hr]; subst.
  cbn [run_frames]. rewrite !filter_app, out_not_pong, (IH _ _ Hr). cbn [app].
  rewrite writes_char by assumption.
  unfold pongs_owed. cbn [map filter wframe_of wh h_opcode wpayload].
  destruct (a_opcode f =? OP_PING); [reflexivity|].
  destruct ((a_opcode f =? OP_CLOSE) && conn); reflexivity.
Qed.

(* ---- at most one automatic close reply ---- *)
Definition is_close_reply (o : fobs) : bool := match o with OCloseReply => true | _ => false end.

Lemma writes_cases fire skip control conn cf f :
  s_writes (handle_frame fire skip control conn cf f) = [] \/
  (exists d, s_writes (handle_frame fire skip control conn cf f) = [WPong d]) \/
  (s_writes (handle_frame fire skip control conn cf f) = [WClose] /\ conn = true).
Proof.
  destruct (Z.eq_dec (a_opcode f) 9) as [E9|N9].
  - destruct (Z_le_gt_dec (zlen (a_data f)) 125).
    + right; left. exists (a_data f). now rewrite hf_ping.
    + left. rewrite hf_ping_long by lia. reflexivity.
  - destruct (Z.eq_dec (a_opcode f) 8) as [E8|N8].
    + rewrite hf_close by assumption. cbn [s_writes]. destruct conn; [right; right; now split | now left].
    + left. now apply C07_only_replies.
Qed.

Lemma out_not_close (o : outcome) :
  filter is_close_reply (match o with
                         | Return op f' => [ODeliver op (a_fin f') (a_data f')]
                         | Fail e => [OFail e]
                         | Again => []
                         end) = [].
Proof. destruct o; reflexivity. Qed.

Lemma no_reply_when_disconnected fire skip control fs : forall cf,
  filter is_close_reply (run_frames fire skip control false cf fs) = [].
Proof.
  induction fs as [|f r IH]; intro cf; [reflexivity|].
  cbn [run_frames andb]. rewrite !filter_app, out_not_close, IH. cbn [app].
  destruct (writes_cases fire skip control false cf f) as [E | [[d E] | [_ E]]];
    [rewrite E; reflexivity | rewrite E; reflexivity | discriminate E].
Qed.

Theorem C08_close_reply_once : forall fire skip control fs cf conn,
  (length (filter (fun o => match o with OCloseReply => true | _ => false end)
                  (run_frames fire skip control conn cf fs)) <= 1)%nat.
Proof.
  intros fire skip control fs. change (fun o => match o with OCloseReply => true | _ => false end) with is_close_reply.
  induction fs as [|f r IH]; intros cf conn; [cbn; lia|].
  cbn [run_frames]. rewrite !filter_app, out_not_close. cbn [app].
  destruct (writes_cases fire skip control conn cf f) as [E | [[d E] | [E Hc]]]; rewrite E.
  - cbn [map filter app wrote_close existsb negb]. apply IH.
  - cbn [map write_obs filter is_close_reply app wrote_close existsb orb negb]. apply IH.
  - subst conn. cbn [map write_obs filter is_close_reply app wrote_close existsb orb negb andb].
    rewrite no_reply_when_disconnected. cbn [length]. lia.
Qed.

Print Assumptions C05_frame_sound.
Print Assumptions C05_frame_complete.
Print Assumptions C05_frame_sound_skip.
Print Assumptions C05_frame_complete_skip.
Print Assumptions C05_seq_reject.
Print Assumptions C05_seq_accept_partial.
Print Assumptions C05_seq_accept_reachable.
Print Assumptions C05_seq_accept_fail.
Print Assumptions C05_seq_accept_counterexample.
Print Assumptions cf_wf_init.
Print Assumptions cf_wf_step.
Print Assumptions C04_reassembly.
Print Assumptions C04_fire.
Print Assumptions C07_pongs.
Print Assumptions C07_only_replies.
Print Assumptions C07_one_pong.
Print Assumptions C08_close_reply_once.
