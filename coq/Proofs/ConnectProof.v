(* WebSocket.connect (properties C11 redirects, C18 address fall-through, and the cleanup on failure):
   proofs about Model/Connect.v and Model/Open.v. *)
From Coq Require Import ZArith List Bool Lia.
From WS Require Import Base.Res Base.Bytes Base.Str Base.B64 Gen.GenHandshake Model.Xport Model.Http
  Model.Handshake Model.Url Model.Open Model.Connect Spec.HttpReq Proofs.HandshakeProof.
Import ListNotations.
Open Scope Z_scope.

(* ================================================================================== *)
(* Part 0 : the steps of connect(), one at a time                                      *)
(* ================================================================================== *)

Definition closed (x : xport) : Prop := In IClose (iolog x).

Lemma closed_close_x x : closed (close_x x).
Proof. unfold closed, close_x, xlog. cbn [iolog]. apply in_or_app. right. left. reflexivity. Qed.

(* the two record updates of the model that are not already functions *)
Definition release (st : cstate) (xc : xport) : cstate :=
  {| cs_connected := cs_connected st; cs_sock := cs_sock st; cs_released := cs_released st ++ [xc];
     cs_status := cs_status st; cs_subproto := cs_subproto st; cs_rand := cs_rand st;
     cs_net := cs_net st; cs_socklog := cs_socklog st; cs_requests := cs_requests st |}.

Definition connected_state (st : cstate) (x : xport) (status : Z) (sub : option str) : cstate :=
  {| cs_connected := true; cs_sock := Some x; cs_released := cs_released st;
     cs_status := Some status; cs_subproto := sub; cs_rand := cs_rand st; cs_net := cs_net st;
     cs_socklog := cs_socklog st; cs_requests := cs_requests st |}.

(* _http.connect touches only the network script and the socket log *)
Lemma open_conn_fields url prepared st r st' :
  open_conn url prepared st = (r, st') ->
  cs_connected st' = cs_connected st /\ cs_sock st' = cs_sock st /\
  cs_released st' = cs_released st /\ cs_status st' = cs_status st /\
  cs_subproto st' = cs_subproto st /\ cs_rand st' = cs_rand st /\
  cs_requests st' = cs_requests st.
Proof.
  unfold open_conn. intros H.
  destruct (parse_url url) as [tg|e]; [|inversion H; subst; repeat split; reflexivity].
  destruct prepared as [x|]; [inversion H; subst; repeat split; reflexivity|].
  destruct (cs_net st) as [|c rest]; [inversion H; subst; repeat split; reflexivity|].
  destruct (n_addrs c) as [|a l]; [inversion H; subst; repeat split; reflexivity|].
  destruct (open_socket (a :: l)) as [[i|e] lg]; inversion H; subst; repeat split; reflexivity.
Qed.

(* with header=None the library always uses its own key and never fails building the request *)
Lemma ghh_hnone resource scheme host port o fk sc :
  o_header o = HNone ->
  exists lines, get_handshake_headers resource scheme host port o fk sc = Ok (lines, fk).
Proof.
  intros Hh.
  destruct (get_handshake_headers resource scheme host port o fk sc) as [[lines key]|e] eqn:E.
  - exists lines. apply ghh_shape in E. destruct E as [_ ->].
    unfold key_used, own_key. rewrite Hh. reflexivity.
  - exfalso. unfold get_handshake_headers in E. rewrite Hh in E.
    cbn [hdr_truthy hdr_has negb orb] in E. discriminate E.
Qed.

(* handshake(): either nothing was written (no request recorded), or exactly one request was
   recorded, built from one fresh draw, and [handshake] ran on it *)
Lemma do_handshake_spec url tg o x st r x' st' :
  do_handshake url tg o x st = (r, x', st') ->
  cs_connected st' = cs_connected st /\ cs_sock st' = cs_sock st /\
  cs_released st' = cs_released st /\
  ( (cs_requests st' = cs_requests st /\ (exists e, r = Raise e) /\ x' = x /\
     (o_header o = HNone -> cs_rand st' = cs_rand st))
    \/
    (exists draw rand' req key,
       cs_rand st = draw :: rand' /\ cs_rand st' = rand' /\
       cs_requests st' = cs_requests st ++ [(req, key)] /\
       key = key_used o (b64_encode draw) /\
       handshake x req key (o_subprotocols o) = (r, x')) ).
Proof.
  destruct tg as [[[host port] resource] sec]. unfold do_handshake. cbv beta iota zeta.
  destruct (cs_rand st) as [|draw rand'] eqn:Er.
  - intros H. inversion H; subst. repeat split; try reflexivity.
    left. repeat split; eauto.
  - destruct (get_handshake_headers resource (url_scheme url) host port o (b64_encode draw) [])
      as [[lines key]|e] eqn:Eg.
    + destruct (handshake x (request_bytes lines) key (o_subprotocols o)) as [r0 x0] eqn:Eh.
      intros H. inversion H; subst. cbn [cs_connected cs_sock cs_released cs_requests cs_rand].
      repeat split; try reflexivity.
      right. exists draw, rand', (request_bytes lines), key.
      repeat split; try reflexivity; try assumption.
      exact (proj2 (ghh_shape _ _ _ _ _ _ _ _ _ Eg)).
    + intros H. inversion H; subst. cbn [cs_connected cs_sock cs_released cs_requests cs_rand].
      repeat split; try reflexivity.
      left. repeat split; eauto.
      intros Hh. exfalso.
      destruct (ghh_hnone resource (url_scheme url) host port o (b64_encode draw) [] Hh) as [l El].
      rewrite El in Eg. discriminate Eg.
Qed.

(* ================================================================================== *)
(* Part 1 : a relation between the state before and after, carried through connect()   *)
(* ================================================================================== *)

(* [R k st st'] : st' is reachable from st with at most k handshakes.  Any such relation that is
   respected by the individual steps is respected by redirect_loop and by ws_connect. *)
Section Through.
  Variable o : hsopts.
  Variable R : nat -> cstate -> cstate -> Prop.
  Hypothesis R_refl : forall st, R 0 st st.
  Hypothesis R_trans : forall a b s1 s2 s3, R a s1 s2 -> R b s2 s3 -> R (a + b) s1 s3.
  Hypothesis R_mono : forall a b s1 s2, (a <= b)%nat -> R a s1 s2 -> R b s1 s2.
  Hypothesis R_open : forall url p st r st', open_conn url p st = (r, st') -> R 0 st st'.
  Hypothesis R_release : forall st x, R 0 st (release st (close_x x)).
  Hypothesis R_hs : forall url tg x st r x' st',
    do_handshake url tg o x st = (r, x', st') -> R 1 st st'.

  Lemma redirect_loop_R : forall n resp x st r cur st',
    redirect_loop n o resp x st = (r, cur, st') -> R n st st'.
  Proof.
    induction n as [|k IH]; intros resp x st r cur st' H; cbn [redirect_loop] in H.
    - inversion H; subst. apply R_refl.
    - destruct resp as [status hs|status hs sub].
      + destruct (alist_get S_LOCATION hs) as [[|c l]|].
        * inversion H; subst. eapply R_mono; [|apply R_refl]. lia.
        * destruct (parse_url (c :: l)) as [tg0|e0];
            [|inversion H; subst; eapply R_mono; [|apply R_refl]; lia].
          destruct (open_conn (c :: l) None st) as [[[x2 tg]|e] st1] eqn:E1.
          -- destruct (do_handshake (c :: l) tg o x2 _) as [[[resp'|e] x3] st3] eqn:E2.
             ++ eapply R_mono;
                  [|eapply R_trans; [eapply R_open; exact E1|
                    eapply R_trans; [apply (R_release st1 x)|
                    eapply R_trans; [eapply R_hs; exact E2|eapply IH; exact H]]]].
                lia.
             ++ inversion H; subst.
                eapply R_mono;
                  [|eapply R_trans; [eapply R_open; exact E1|
                    eapply R_trans; [apply (R_release st1 x)|eapply R_hs; exact E2]]].
                lia.
          -- inversion H; subst. eapply R_mono; [|eapply R_open; exact E1]. lia.
        * inversion H; subst. eapply R_mono; [|apply R_refl]. lia.
      + eapply R_mono; [|eapply IH; exact H]. lia.
  Qed.

  Hypothesis R_fail : forall e cur st, R 0 st (snd (fail_with e cur st)).
  Hypothesis R_succ : forall st x status sub, R 0 st (connected_state st x status sub).

  Lemma fail_with_snd e cur st r st' : fail_with e cur st = (r, st') -> st' = snd (fail_with e cur st).
  Proof. intros H. rewrite H. reflexivity. Qed.

  Lemma ws_connect_R : forall url limit prepared st r st',
    ws_connect url o limit prepared st = (r, st') -> R (S (Z.to_nat limit)) st st'.
  Proof.
    intros url limit prepared st r st' H. unfold ws_connect in H.
    destruct (open_conn url prepared st) as [[[x tg]|e0] st1] eqn:E1.
    - destruct (do_handshake url tg o x st1) as [[[resp|e1] x1] st2] eqn:E2.
      + destruct (redirect_loop (Z.to_nat limit) o resp x1 st2) as [[[[resp' x2]|e2] cur] st3] eqn:E3.
        * assert (R3 : R (S (Z.to_nat limit)) st st3).
          { eapply R_mono;
              [|eapply R_trans; [eapply R_open; exact E1|
                eapply R_trans; [eapply R_hs; exact E2|eapply redirect_loop_R; exact E3]]].
            lia. }
          destruct resp' as [status hs|status hs sub].
          -- apply fail_with_snd in H. subst st'.
             eapply R_mono; [|eapply R_trans; [exact R3|apply R_fail]]. lia.
          -- inversion H; subst.
             eapply R_mono; [|eapply R_trans; [exact R3|apply (R_succ st3 x2 status sub)]]. lia.
        * apply fail_with_snd in H. subst st'.
          eapply R_mono;
            [|eapply R_trans; [eapply R_open; exact E1|
              eapply R_trans; [eapply R_hs; exact E2|
              eapply R_trans; [eapply redirect_loop_R; exact E3|apply R_fail]]]].
          lia.
      + apply fail_with_snd in H. subst st'.
        eapply R_mono;
          [|eapply R_trans; [eapply R_open; exact E1|
            eapply R_trans; [eapply R_hs; exact E2|apply R_fail]]].
        lia.
    - inversion H; subst. eapply R_mono; [|eapply R_open; exact E1]. lia.
  Qed.
End Through.

(* ================================================================================== *)
(* Part 2 : at most [limit] redirects are followed                                     *)
(* ================================================================================== *)

Definition Rlen (k : nat) (st st' : cstate) : Prop :=
  (length (cs_requests st') <= length (cs_requests st) + k)%nat.

Theorem connect_redirect_bound : forall url o limit prepared st r st',
  0 <= limit ->
  ws_connect url o limit prepared st = (r, st') ->
  (length (cs_requests st') <= length (cs_requests st) + Z.to_nat limit + 1)%nat.
Proof.
  intros url o limit prepared st r st' _ H.
  assert (G : Rlen (S (Z.to_nat limit)) st st').
  { eapply (ws_connect_R o Rlen); try exact H; unfold Rlen.
    - intros; lia.
    - intros; lia.
    - intros; lia.
    - intros u p s1 r1 s2 E. apply open_conn_fields in E.
      destruct E as (_ & _ & _ & _ & _ & _ & ->). lia.
    - intros; cbn [release cs_requests]; lia.
    - intros u tg x s1 r1 x' s2 E. apply do_handshake_spec in E.
      destruct E as (_ & _ & _ & [(-> & _)|(d & rd & req & key & _ & _ & -> & _)]);
        [|rewrite app_length; cbn [length]]; lia.
    - intros; cbn [fail_with snd cs_requests]; lia.
    - intros; cbn [connected_state cs_requests]; lia. }
  unfold Rlen in G. lia.
Qed.

(* the same count for the loop alone: [n] iterations write at most [n] further requests *)
Lemma redirect_loop_bound : forall n o resp x st r cur st',
  redirect_loop n o resp x st = (r, cur, st') ->
  (length (cs_requests st') <= length (cs_requests st) + n)%nat.
Proof.
  intros n o resp x st r cur st' H.
  change (Rlen n st st'). eapply (redirect_loop_R o Rlen); try exact H; unfold Rlen.
  - intros; lia.
  - intros; lia.
  - intros; lia.
  - intros u p s1 r1 s2 E. apply open_conn_fields in E.
    destruct E as (_ & _ & _ & _ & _ & _ & ->). lia.
  - intros; cbn [release cs_requests]; lia.
  - intros u tg x0 s1 r1 x' s2 E. apply do_handshake_spec in E.
    destruct E as (_ & _ & _ & [(-> & _)|(d & rd & req & key & _ & _ & -> & _)]);
      [|rewrite app_length; cbn [length]]; lia.
Qed.

(* ================================================================================== *)
(* Part 3 : every transport that was dropped has been closed                           *)
(* ================================================================================== *)

Definition Rcl (_ : nat) (st st' : cstate) : Prop :=
  Forall closed (cs_released st) -> Forall closed (cs_released st').

Lemma connect_closes : forall url o limit prepared st r st',
  ws_connect url o limit prepared st = (r, st') ->
  Forall closed (cs_released st) -> Forall closed (cs_released st').
Proof.
  intros url o limit prepared st r st' H.
  change (Rcl (S (Z.to_nat limit)) st st').
  eapply (ws_connect_R o Rcl); try exact H; unfold Rcl.
  - auto.
  - auto.
  - auto.
  - intros u p s1 r1 s2 E. apply open_conn_fields in E.
    destruct E as (_ & _ & -> & _). auto.
  - intros s x F. cbn [release cs_released]. apply Forall_app. split; [exact F|].
    constructor; [apply closed_close_x|constructor].
  - intros u tg x s1 r1 x' s2 E. apply do_handshake_spec in E.
    destruct E as (_ & _ & -> & _). auto.
  - intros e cur s F. cbn [fail_with snd cs_released]. apply Forall_app. split; [exact F|].
    destruct cur as [x|]; [constructor; [apply closed_close_x|constructor]|constructor].
  - intros s x status sub F. cbn [connected_state cs_released]. exact F.
Qed.

Theorem connect_failure_closes : forall url o limit prepared st e st',
  ws_connect url o limit prepared st = (Raise e, st') ->
  Forall (fun x => In IClose (iolog x)) (cs_released st) ->
  Forall (fun x => In IClose (iolog x)) (cs_released st').
Proof. intros url o limit prepared st e st' H. exact (connect_closes _ _ _ _ _ _ _ H). Qed.

Theorem connect_success_closes : forall url o limit prepared st st',
  ws_connect url o limit prepared st = (Ok tt, st') ->
  Forall (fun x => In IClose (iolog x)) (cs_released st) ->
  Forall (fun x => In IClose (iolog x)) (cs_released st').
Proof. intros url o limit prepared st st' H. exact (connect_closes _ _ _ _ _ _ _ H). Qed.

(* the state after a failure *)
Theorem connect_failure_clean : forall url o limit prepared st e st',
  ws_connect url o limit prepared st = (Raise e, st') ->
  cs_connected st = false -> cs_sock st = None ->
  cs_connected st' = false /\ cs_sock st' = None.
Proof.
  intros url o limit prepared st e st' H Hc Hs. unfold ws_connect in H.
  destruct (open_conn url prepared st) as [[[x tg]|e0] st1] eqn:E1.
  - destruct (do_handshake url tg o x st1) as [[[resp|e1] x1] st2] eqn:E2.
    + destruct (redirect_loop (Z.to_nat limit) o resp x1 st2) as [[[[resp' x2]|e2] cur] st3] eqn:E3.
      * destruct resp' as [status hs|status hs sub]; [|discriminate H].
        unfold fail_with in H. inversion H; subst. split; reflexivity.
      * unfold fail_with in H. inversion H; subst. split; reflexivity.
    + unfold fail_with in H. inversion H; subst. split; reflexivity.
  - inversion H; subst. apply open_conn_fields in E1.
    destruct E1 as (-> & -> & _). split; assumption.
Qed.

(* sharper: a failure either happened before the try block (connected/sock/released untouched)
   or inside it (not connected, no socket, and the socket that was current has been closed and
   released) *)
Theorem connect_failure_cases : forall url o limit prepared st e st',
  ws_connect url o limit prepared st = (Raise e, st') ->
  (cs_connected st' = cs_connected st /\ cs_sock st' = cs_sock st /\
   cs_released st' = cs_released st /\ cs_requests st' = cs_requests st /\
   cs_rand st' = cs_rand st)
  \/ (cs_connected st' = false /\ cs_sock st' = None).
Proof.
  intros url o limit prepared st e st' H. unfold ws_connect in H.
  destruct (open_conn url prepared st) as [[[x tg]|e0] st1] eqn:E1.
  - right.
    destruct (do_handshake url tg o x st1) as [[[resp|e1] x1] st2] eqn:E2.
    + destruct (redirect_loop (Z.to_nat limit) o resp x1 st2) as [[[[resp' x2]|e2] cur] st3] eqn:E3.
      * destruct resp' as [status hs|status hs sub]; [|discriminate H].
        unfold fail_with in H. inversion H; subst. split; reflexivity.
      * unfold fail_with in H. inversion H; subst. split; reflexivity.
    + unfold fail_with in H. inversion H; subst. split; reflexivity.
  - left. inversion H; subst. apply open_conn_fields in E1.
    destruct E1 as (-> & -> & -> & _ & _ & -> & ->). repeat split; reflexivity.
Qed.

(* ================================================================================== *)
(* Part 4 : connected only if the final response is a valid upgrade                    *)
(* ================================================================================== *)

(* the pair (resp, x) carried by connect() is the outcome of [handshake] on the LAST request
   written, validated against the key sent in that very request *)
Definition last_exchange (o : hsopts) (st : cstate) (resp : hs_result) (x : xport) : Prop :=
  exists x0 req key,
    cs_requests st <> [] /\ last (cs_requests st) (req, key) = (req, key) /\
    handshake x0 req key (o_subprotocols o) = (Ok resp, x).

Lemma do_handshake_last url tg o x st resp x' st' :
  do_handshake url tg o x st = (Ok resp, x', st') -> last_exchange o st' resp x'.
Proof.
  intros H. apply do_handshake_spec in H.
  destruct H as (_ & _ & _ & [(_ & (e & He) & _)|(d & rd & req & key & _ & _ & Er & _ & Eh)]).
  - discriminate He.
  - exists x, req, key. rewrite Er. split; [|split].
    + intros E. apply app_eq_nil in E. destruct E as [_ E]. discriminate E.
    + apply last_last.
    + exact Eh.
Qed.

Lemma redirect_loop_last o : forall n resp x st resp' x' cur st',
  last_exchange o st resp x ->
  redirect_loop n o resp x st = (Ok (resp', x'), cur, st') ->
  last_exchange o st' resp' x'.
Proof.
  induction n as [|k IH]; intros resp x st resp' x' cur st' L H; cbn [redirect_loop] in H.
  - inversion H; subst. exact L.
  - destruct resp as [status hs|status hs sub].
    + destruct (alist_get S_LOCATION hs) as [[|c l]|]; try discriminate H.
      destruct (parse_url (c :: l)) as [tg0|e0]; [|discriminate H].
      destruct (open_conn (c :: l) None st) as [[[x2 tg]|e] st1] eqn:E1; [|discriminate H].
      destruct (do_handshake (c :: l) tg o x2 _) as [[[resp1|e] x3] st3] eqn:E2; [|discriminate H].
      eapply IH; [|exact H]. eapply do_handshake_last. exact E2.
    + eapply IH; [exact L|exact H].
Qed.

(* a loop that ends normally with a non-redirect result ended on a validated 101 *)
Theorem connect_ok_only_if : forall url o limit prepared st st',
  ws_connect url o limit prepared st = (Ok tt, st') ->
  cs_connected st' = true /\ cs_status st' = Some 101 /\
  exists x0 req key hs sub x,
    cs_sock st' = Some x /\
    last (cs_requests st') (req, key) = (req, key) /\ cs_requests st' <> [] /\
    handshake x0 req key (o_subprotocols o) = (Ok (HsOk 101 hs sub), x) /\
    response_accepts 101 hs key (o_subprotocols o) = true /\
    cs_subproto st' = sub.
Proof.
  intros url o limit prepared st st' H. unfold ws_connect in H.
  destruct (open_conn url prepared st) as [[[x tg]|e0] st1] eqn:E1; [|discriminate H].
  destruct (do_handshake url tg o x st1) as [[[resp|e1] x1] st2] eqn:E2;
    [|unfold fail_with in H; discriminate H].
  destruct (redirect_loop (Z.to_nat limit) o resp x1 st2) as [[[[resp' x2]|e2] cur] st3] eqn:E3;
    [|unfold fail_with in H; discriminate H].
  destruct resp' as [status hs|status hs sub]; [unfold fail_with in H; discriminate H|].
  apply do_handshake_last in E2.
  pose proof (redirect_loop_last _ _ _ _ _ _ _ _ _ E2 E3) as (x0 & req & key & Hne & Hl & Hh).
  destruct (handshake_ok_only_if _ _ _ _ _ _ _ _ Hh) as [-> Ha].
  inversion H; subst. cbn [cs_connected cs_status cs_sock cs_requests cs_subproto].
  split; [reflexivity|]. split; [reflexivity|].
  exists x0, req, key, hs, sub, x2. repeat split; assumption || reflexivity.
Qed.

(* success is never reported on a redirect response: the status recorded is that of the last
   exchange, that exchange ended in HsOk, and its status is not a redirect status *)
Theorem connect_redirect_never_success : forall url o limit prepared st st',
  ws_connect url o limit prepared st = (Ok tt, st') ->
  exists status,
    cs_status st' = Some status /\ ~ In status SUPPORTED_REDIRECT_STATUSES /\
    exists x0 req key hs sub x,
      cs_sock st' = Some x /\ cs_requests st' <> [] /\
      last (cs_requests st') (req, key) = (req, key) /\
      handshake x0 req key (o_subprotocols o) = (Ok (HsOk status hs sub), x) /\
      (forall hs', Ok (HsOk status hs sub) <> Ok (HsRedirect status hs')).
Proof.
  intros url o limit prepared st st' H.
  destruct (connect_ok_only_if _ _ _ _ _ _ H)
    as (_ & Hs & x0 & req & key & hs & sub & x & Hx & Hl & Hne & Hh & _ & _).
  exists 101. split; [exact Hs|]. split.
  - unfold SUPPORTED_REDIRECT_STATUSES. cbn [In]. intros G.
    repeat (destruct G as [G|G]; [discriminate G|]). exact G.
  - exists x0, req, key, hs, sub, x. repeat split; try assumption. intros hs' E. discriminate E.
Qed.

(* ================================================================================== *)
(* Part 5 : one fresh key per handshake                                                *)
(* ================================================================================== *)

Lemma firstn_add {A} : forall k1 k2 (l : list A),
  firstn (k1 + k2) l = firstn k1 l ++ firstn k2 (skipn k1 l).
Proof.
  induction k1 as [|k IH]; intros k2 l; [reflexivity|].
  destruct l as [|a l]; cbn [Nat.add firstn skipn app].
  - now rewrite firstn_nil.
  - now rewrite IH.
Qed.
Lemma skipn_add {A} : forall k1 k2 (l : list A), skipn (k1 + k2) l = skipn k2 (skipn k1 l).
Proof.
  induction k1 as [|k IH]; intros k2 l; [reflexivity|].
  destruct l as [|a l]; cbn [Nat.add skipn].
  - now rewrite skipn_nil.
  - apply IH.
Qed.
Lemma skipn_exact {A} : forall (a b : list A), skipn (length a) (a ++ b) = b.
Proof. induction a as [|x a IH]; intros b; [reflexivity|]. cbn [length app skipn]. apply IH. Qed.

(* the requests written between st and st' carry, in order, the base64 of the first k pending
   draws, and exactly those k draws have been consumed *)
Definition Rfresh (n : nat) (st st' : cstate) : Prop :=
  exists new k,
    (k <= n)%nat /\
    cs_requests st' = cs_requests st ++ new /\
    map snd new = map b64_encode (firstn k (cs_rand st)) /\
    cs_rand st' = skipn k (cs_rand st).

Lemma Rfresh_same n st st' :
  cs_requests st' = cs_requests st -> cs_rand st' = cs_rand st -> Rfresh n st st'.
Proof. intros E1 E2. exists [], 0%nat. rewrite app_nil_r. repeat split; (assumption || lia). Qed.

Lemma Rfresh_trans a b s1 s2 s3 : Rfresh a s1 s2 -> Rfresh b s2 s3 -> Rfresh (a + b) s1 s3.
Proof.
  intros (n1 & k1 & L1 & Q1 & M1 & D1) (n2 & k2 & L2 & Q2 & M2 & D2).
  exists (n1 ++ n2), (k1 + k2)%nat. split; [lia|]. split; [|split].
  - rewrite Q2, Q1, app_assoc. reflexivity.
  - rewrite map_app, M1, M2, D1, firstn_add, map_app. reflexivity.
  - rewrite D2, D1, skipn_add. reflexivity.
Qed.

(* with the count: at most limit+1 draws *)
Theorem connect_fresh_keys_bounded : forall url o limit prepared st r st',
  o_header o = HNone ->
  ws_connect url o limit prepared st = (r, st') ->
  exists k, (k <= Z.to_nat limit + 1)%nat /\
    map snd (skipn (length (cs_requests st)) (cs_requests st')) = map b64_encode (firstn k (cs_rand st)) /\
    cs_rand st' = skipn k (cs_rand st).
Proof.
  intros url o limit prepared st r st' Hh H.
  assert (G : Rfresh (S (Z.to_nat limit)) st st').
  { eapply (ws_connect_R o Rfresh); try exact H.
    - intros; apply Rfresh_same; reflexivity.
    - apply Rfresh_trans.
    - intros a b s1 s2 Hab (new & k & L & G). exists new, k. split; [lia|exact G].
    - intros u p s1 r1 s2 E. apply open_conn_fields in E.
      destruct E as (_ & _ & _ & _ & _ & Er & Eq). apply Rfresh_same; assumption.
    - intros s x. apply Rfresh_same; reflexivity.
    - intros u tg x s1 r1 x' s2 E. apply do_handshake_spec in E.
      destruct E as (_ & _ & _ & [(Eq & _ & _ & Er)|(d & rd & req & key & Er & Er' & Eq & Ek & _)]).
      + apply Rfresh_same; [exact Eq|exact (Er Hh)].
      + exists [(req, key)], 1%nat. split; [lia|]. split; [exact Eq|]. rewrite Er.
        cbn [firstn skipn map snd].
        split; [|exact Er']. rewrite Ek. unfold key_used, own_key. rewrite Hh. reflexivity.
    - intros e cur s. apply Rfresh_same; reflexivity.
    - intros s x status sub. apply Rfresh_same; reflexivity. }
  destruct G as (new & k & L & Q & M & D). exists k. rewrite Q, skipn_exact.
  split; [lia|]. split; assumption.
Qed.

Theorem connect_fresh_keys : forall url o limit prepared st r st',
  o_header o = HNone ->
  ws_connect url o limit prepared st = (r, st') ->
  exists k,
    map snd (skipn (length (cs_requests st)) (cs_requests st')) = map b64_encode (firstn k (cs_rand st)) /\
    cs_rand st' = skipn k (cs_rand st).
Proof.
  intros url o limit prepared st r st' Hh H.
  destruct (connect_fresh_keys_bounded _ _ _ _ _ _ _ Hh H) as (k & _ & G). exists k. exact G.
Qed.

(* ================================================================================== *)
(* Part 6 : address fall-through (C18)                                                 *)
(* ================================================================================== *)

Definition soft (a : addr_outcome) : Prop := a = ARefused \/ a = AUnreach.
Definition errno_of (a : addr_outcome) : Z :=
  match a with ARefused => 111 | AUnreach => 101 | AOther e => e | AAccept => 0 end.

(* what is logged for a socket that was tried and abandoned *)
Definition tried (i : nat) : list sockev := prep i ++ [SCloseSock i].

(* the error remembered after a run of refused / unreachable addresses *)
Definition err_after (l : list addr_outcome) (le : option Z) : option Z :=
  fold_left (fun _ a => Some (errno_of a)) l le.

(* a run of refused / unreachable addresses never aborts the attempt: each socket is prepared,
   connected, closed, and the next address is tried *)
Lemma open_socket_from_soft : forall pre i0 rest le log,
  Forall soft pre ->
  open_socket_from i0 (pre ++ rest) le log =
  open_socket_from (i0 + length pre) rest (err_after pre le)
    (log ++ flat_map tried (seq i0 (length pre))).
Proof.
  induction pre as [|a pre IH]; intros i0 rest le log HF.
  - cbn [app length seq flat_map err_after fold_left]. rewrite Nat.add_0_r, app_nil_r. reflexivity.
  - inversion HF as [|? ? Ha Hp]; subst.
    cbn [app length seq flat_map err_after fold_left open_socket_from].
    replace (i0 + S (length pre))%nat with (S i0 + length pre)%nat by lia.
    destruct Ha as [-> | ->]; rewrite IH by exact Hp; cbn [errno_of]; unfold tried, err_after;
      rewrite <- !app_assoc; reflexivity.
Qed.

Lemma open_socket_from_accept : forall pre post i0 le log,
  Forall soft pre ->
  open_socket_from i0 (pre ++ AAccept :: post) le log =
  (Ok (i0 + length pre)%nat,
   log ++ flat_map (fun i => prep i ++ [SCloseSock i]) (seq i0 (length pre)) ++ prep (i0 + length pre)).
Proof.
  intros pre post i0 le log HF. rewrite open_socket_from_soft by exact HF.
  cbn [open_socket_from]. rewrite <- app_assoc. reflexivity.
Qed.

Lemma open_socket_from_other : forall pre e post i0 le log,
  Forall soft pre ->
  open_socket_from i0 (pre ++ AOther e :: post) le log =
  (Raise (Transport e),
   log ++ flat_map (fun i => prep i ++ [SCloseSock i]) (seq i0 (length pre))
       ++ prep (i0 + length pre) ++ [SCloseSock (i0 + length pre)]).
Proof.
  intros pre e post i0 le log HF. rewrite open_socket_from_soft by exact HF.
  cbn [open_socket_from]. rewrite <- !app_assoc. reflexivity.
Qed.

Lemma open_socket_from_all_soft : forall l a i0 le log,
  Forall soft (l ++ [a]) ->
  open_socket_from i0 (l ++ [a]) le log =
  (Raise (Transport (errno_of a)),
   log ++ flat_map (fun i => prep i ++ [SCloseSock i]) (seq i0 (length l + 1))).
Proof.
  intros l a i0 le log HF.
  rewrite <- (app_nil_r (l ++ [a])). rewrite open_socket_from_soft by exact HF.
  cbn [open_socket_from]. unfold err_after. rewrite fold_left_app. cbn [fold_left].
  rewrite app_length. cbn [length]. reflexivity.
Qed.

Theorem open_socket_accept : forall pre post,
  Forall soft pre ->
  open_socket (pre ++ AAccept :: post) =
  (Ok (length pre),
   flat_map (fun i => prep i ++ [SCloseSock i]) (seq 0 (length pre)) ++ prep (length pre)).
Proof. intros pre post HF. unfold open_socket. rewrite open_socket_from_accept by exact HF. reflexivity. Qed.

Theorem open_socket_other : forall pre e post,
  Forall soft pre ->
  open_socket (pre ++ AOther e :: post) =
  (Raise (Transport e),
   flat_map (fun i => prep i ++ [SCloseSock i]) (seq 0 (length pre))
     ++ prep (length pre) ++ [SCloseSock (length pre)]).
Proof. intros pre e post HF. unfold open_socket. rewrite open_socket_from_other by exact HF. reflexivity. Qed.

Theorem open_socket_all_soft : forall l a,
  Forall soft (l ++ [a]) ->
  open_socket (l ++ [a]) =
  (Raise (Transport (errno_of a)),
   flat_map (fun i => prep i ++ [SCloseSock i]) (seq 0 (length l + 1))).
Proof. intros l a HF. unfold open_socket. rewrite open_socket_from_all_soft by exact HF. reflexivity. Qed.

(* every address list falls in exactly one of the three shapes (or is empty) *)
Lemma addrs_shape : forall l : list addr_outcome,
  l = [] \/
  (exists pre post, Forall soft pre /\ l = pre ++ AAccept :: post) \/
  (exists pre e post, Forall soft pre /\ l = pre ++ AOther e :: post) \/
  (exists l0 a, Forall soft (l0 ++ [a]) /\ l = l0 ++ [a]).
Proof.
  induction l as [|a l IH]; [left; reflexivity|right].
  destruct a as [| | |e].
  - left. exists [], l. split; [constructor|reflexivity].
  - destruct IH as [->|[(pre & post & HF & ->)|[(pre & e & post & HF & ->)|(l0 & a & HF & ->)]]].
    + right; right. exists [], ARefused.
      split; [constructor; [left; reflexivity|constructor]|reflexivity].
    + left. exists (ARefused :: pre), post. split; [constructor; [left; reflexivity|exact HF]|reflexivity].
    + right; left. exists (ARefused :: pre), e, post.
      split; [constructor; [left; reflexivity|exact HF]|reflexivity].
    + right; right. exists (ARefused :: l0), a.
      split; [constructor; [left; reflexivity|exact HF]|reflexivity].
  - destruct IH as [->|[(pre & post & HF & ->)|[(pre & e & post & HF & ->)|(l0 & a & HF & ->)]]].
    + right; right. exists [], AUnreach.
      split; [constructor; [right; reflexivity|constructor]|reflexivity].
    + left. exists (AUnreach :: pre), post. split; [constructor; [right; reflexivity|exact HF]|reflexivity].
    + right; left. exists (AUnreach :: pre), e, post.
      split; [constructor; [right; reflexivity|exact HF]|reflexivity].
    + right; right. exists (AUnreach :: l0), a.
      split; [constructor; [right; reflexivity|exact HF]|reflexivity].
  - right; left. exists [], e, l. split; [constructor|reflexivity].
Qed.

(* every socket on which connect() is called was created and given the timeout, the default
   options and the configured options, in this order, immediately before *)
Definition prepared_log (lg : list sockev) : Prop :=
  forall i, In (SConnect i) lg -> exists l1 l2, lg = l1 ++ prep i ++ l2.

Lemma prepared_app a b : prepared_log a -> prepared_log b -> prepared_log (a ++ b).
Proof.
  intros Ha Hb i Hin. apply in_app_or in Hin. destruct Hin as [Hin|Hin].
  - destruct (Ha i Hin) as (l1 & l2 & ->). exists l1, (l2 ++ b). rewrite <- !app_assoc. reflexivity.
  - destruct (Hb i Hin) as (l1 & l2 & ->). exists (a ++ l1), l2. rewrite <- !app_assoc. reflexivity.
Qed.
Lemma prepared_prep i : prepared_log (prep i).
Proof.
  intros j Hin. unfold prep in Hin. cbn [In] in Hin.
  destruct Hin as [H|[H|[H|[H|[H|[]]]]]]; try discriminate H.
  inversion H; subst. exists [], []. rewrite app_nil_r. reflexivity.
Qed.
Lemma prepared_close i : prepared_log [SCloseSock i].
Proof. intros j [H|[]]. discriminate H. Qed.
Lemma prepared_nil : prepared_log [].
Proof. intros j []. Qed.

Lemma open_socket_from_prepared : forall addrs i0 le log r lg,
  prepared_log log -> open_socket_from i0 addrs le log = (r, lg) -> prepared_log lg.
Proof.
  induction addrs as [|a addrs IH]; intros i0 le log r lg HP H; cbn [open_socket_from] in H.
  - destruct le; inversion H; subst; exact HP.
  - assert (P1 : prepared_log (log ++ prep i0)) by (apply prepared_app; [exact HP|apply prepared_prep]).
    assert (P2 : prepared_log ((log ++ prep i0) ++ [SCloseSock i0]))
      by (apply prepared_app; [exact P1|apply prepared_close]).
    destruct a as [| | |e].
    + inversion H; subst. exact P1.
    + eapply IH; [exact P2|exact H].
    + eapply IH; [exact P2|exact H].
    + inversion H; subst. exact P2.
Qed.

Theorem open_socket_prepared : forall addrs r lg i,
  open_socket addrs = (r, lg) -> In (SConnect i) lg ->
  exists l1 l2, lg = l1 ++ prep i ++ l2.
Proof.
  intros addrs r lg i H. unfold open_socket in H.
  exact (open_socket_from_prepared _ _ _ _ _ _ prepared_nil H i).
Qed.

(* and the log recorded by connect() for every connection it opens is such a log *)
Lemma open_conn_socklog url st r st' :
  open_conn url None st = (r, st') ->
  Forall prepared_log (cs_socklog st) -> Forall prepared_log (cs_socklog st').
Proof.
  unfold open_conn. intros H F.
  destruct (parse_url url) as [tg|e]; [|inversion H; subst; exact F].
  destruct (cs_net st) as [|c rest]; [inversion H; subst; exact F|].
  destruct (n_addrs c) as [|a l]; [inversion H; subst; exact F|].
  destruct (open_socket (a :: l)) as [r0 lg] eqn:Eo.
  assert (P : prepared_log lg).
  { intros i Hin. eapply open_socket_prepared; eassumption. }
  destruct r0 as [i|e]; inversion H; subst; cbn [cs_socklog];
    apply Forall_app; split; try exact F; repeat constructor; exact P.
Qed.

(* ================================================================================== *)
(* Part 7 : the socket that was current when the try block failed is closed and dropped *)
(* ================================================================================== *)

Lemma redirect_loop_cur : forall n o resp x st r cur st',
  redirect_loop n o resp x st = (r, cur, st') -> exists xc, cur = Some xc.
Proof.
  induction n as [|k IH]; intros o resp x st r cur st' H; cbn [redirect_loop] in H.
  - inversion H; subst. eauto.
  - destruct resp as [status hs|status hs sub]; [|eapply IH; exact H].
    destruct (alist_get S_LOCATION hs) as [[|c l]|]; try (inversion H; subst; eauto; fail).
    destruct (parse_url (c :: l)) as [tg0|e0]; [|inversion H; subst; eauto].
    destruct (open_conn (c :: l) None st) as [[[x2 tg]|e] st1]; [|inversion H; subst; eauto].
    destruct (do_handshake (c :: l) tg o x2 _) as [[[resp'|e] x3] st3];
      [eapply IH; exact H|inversion H; subst; eauto].
Qed.

(* a failure inside the try block (i.e. after _http.connect returned a socket, the caller's
   prepared socket included) ends with close() on the current socket, which is then dropped *)
Theorem connect_failure_releases_current : forall url o limit prepared st e st' x tg st1,
  open_conn url prepared st = (Ok (x, tg), st1) ->
  ws_connect url o limit prepared st = (Raise e, st') ->
  exists pre xc, cs_released st' = pre ++ [close_x xc].
Proof.
  intros url o limit prepared st e st' x tg st1 E1 H. unfold ws_connect in H. rewrite E1 in H.
  destruct (do_handshake url tg o x st1) as [[[resp|e1] x1] st2] eqn:E2.
  - destruct (redirect_loop (Z.to_nat limit) o resp x1 st2) as [[[[resp' x2]|e2] cur] st3] eqn:E3.
    + destruct resp' as [status hs|status hs sub]; [|discriminate H].
      unfold fail_with in H. inversion H; subst. cbn [cs_released]. eauto.
    + destruct (redirect_loop_cur _ _ _ _ _ _ _ _ E3) as [xc ->].
      unfold fail_with in H. inversion H; subst. cbn [cs_released]. eauto.
  - unfold fail_with in H. inversion H; subst. cbn [cs_released]. eauto.
Qed.

(* in particular, when the very first handshake fails on a caller-supplied socket, it is that
   socket (after the request write and the reads of the handshake) that gets closed *)
Theorem connect_prepared_closed_on_handshake_failure :
  forall url o limit xp st e st' tg st1 e1 x1 st2,
  open_conn url (Some xp) st = (Ok (xp, tg), st1) ->
  do_handshake url tg o xp st1 = (Raise e1, x1, st2) ->
  ws_connect url o limit (Some xp) st = (Raise e, st') ->
  e = e1 /\ cs_released st' = cs_released st ++ [close_x x1] /\
  exists tail, iolog x1 = iolog xp ++ tail.
Proof.
  intros url o limit xp st e st' tg st1 e1 x1 st2 E1 E2 H.
  unfold ws_connect in H. rewrite E1, E2 in H. unfold fail_with in H. inversion H; subst.
  cbn [cs_released]. split; [reflexivity|].
  pose proof (do_handshake_spec _ _ _ _ _ _ _ _ E2) as (_ & _ & Erel & D).
  apply open_conn_fields in E1. destruct E1 as (_ & _ & Erel1 & _).
  rewrite Erel, Erel1. split; [reflexivity|].
  destruct D as [(_ & _ & -> & _)|(d & rd & req & key & _ & _ & _ & _ & Eh)].
  - exists []. now rewrite app_nil_r.
  - apply handshake_writes_once in Eh. destruct Eh as (tail & -> & _). eauto.
Qed.

Print Assumptions connect_ok_only_if.
Print Assumptions connect_redirect_bound.
Print Assumptions redirect_loop_bound.
Print Assumptions connect_redirect_never_success.
Print Assumptions connect_failure_clean.
Print Assumptions connect_failure_cases.
Print Assumptions connect_failure_closes.
Print Assumptions connect_success_closes.
Print Assumptions connect_failure_releases_current.
Print Assumptions connect_prepared_closed_on_handshake_failure.
Print Assumptions connect_fresh_keys.
Print Assumptions connect_fresh_keys_bounded.
Print Assumptions open_socket_accept.
Print Assumptions open_socket_other.
Print Assumptions open_socket_all_soft.
Print Assumptions addrs_shape.
Print Assumptions open_socket_prepared.
Print Assumptions open_conn_socklog.
