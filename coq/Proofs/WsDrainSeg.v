(* End to end on the connection object: what the caller of recv_data_frame observes, and what the
   client writes back (automatic pong / close replies), is independent of how the transport
   segmented the byte stream and of where receive timeouts fell.

   Composes ws_drain_results / ws_drain_writes (WsDrainProof) with the fact that the RFC stream
   decoder [stream_results] does not depend on its fuel once the fuel exceeds the stream length.

   About the END of the scripts.  No hypothesis of the form "both scripts end the same way" is
   needed: in the transport model (Model/Xport.v, sock_recv) a script can end in one way only --
   the end of the list is the orderly end of stream (recv returns b"" -> ConnClosed) -- except for
   [Reset], which [no_reset] excludes on both sides.  Trailing [Timeout]s before the end are retried
   by [ws_drain] and [drain_fuel l] counts every event of [l], so they are absorbed.  The
   hypothesis [no_reset] on BOTH scripts is what makes the ends equal; it cannot be dropped on
   either side (Example [no_reset_needed] below: same bytes, but a Reset instead of EOF at the end
   changes the last observation).  [bytes_ok (flatten l2)] follows from [flatten l1 = flatten l2]. *)
From Coq Require Import ZArith List Bool Lia ZifyBool.
From WS Require Import Base.Res Base.Bytes Base.GenPrelude Spec.Frame Spec.Stream
  Gen.GenAbnf Gen.GenCore
  Model.Xport Model.Recv Model.Send Model.Conn
  Proofs.RecvSpec Proofs.RecvProof Proofs.ConnSpec Proofs.WsDrainSpec Proofs.WsDrainProof.
Import ListNotations.
Open Scope Z_scope.

(* ---------------------------------------------------------------------------------- *)
(* 1. The stream decoder does not depend on its fuel once the fuel exceeds the length  *)
(*    of the stream (every frame consumes at least one byte: decode_consumes).          *)
(* ---------------------------------------------------------------------------------- *)

Lemma stream_results_fuel_stable v : forall f1 f2 s,
  (length s < f1)%nat -> (length s < f2)%nat ->
  stream_results v f1 s = stream_results v f2 s.
Proof.
  induction f1 as [|k1 IH]; intros f2 s H1 H2; [lia|].
  destruct f2 as [|k2]; [lia|].
  rewrite !stream_results_S. unfold next_frame.
  destruct (decode s) as [f rest|f rest|] eqn:E; [| |reflexivity].
  - assert (Hc : (length rest < length s)%nat) by (eapply decode_consumes; eauto).
    f_equal. apply IH; lia.
  - assert (Hc : (length rest < length s)%nat) by (eapply decode_consumes; eauto).
    f_equal. apply IH; lia.
Qed.

(* [drain_fuel] always gives enough *)
Lemma drain_fuel_enough l : (length (flatten l) < drain_fuel l)%nat.
Proof. unfold drain_fuel. lia. Qed.

Corollary stream_results_drain_fuel v l1 l2 :
  flatten l1 = flatten l2 ->
  stream_results v (drain_fuel l1) (flatten l1) = stream_results v (drain_fuel l2) (flatten l2).
Proof.
  intro E. rewrite <- E. apply stream_results_fuel_stable.
  - apply drain_fuel_enough.
  - rewrite E. apply drain_fuel_enough.
Qed.

(* ---------------------------------------------------------------------------------- *)
(* 2. What the caller observes                                                         *)
(* ---------------------------------------------------------------------------------- *)

Theorem ws_drain_segmentation_independent : forall fire skip control l1 l2 ks1 ks2,
  script_ok l1 = true -> no_reset l1 = true -> bytes_ok (flatten l1) -> keys_enough ks1 l1 ->
  script_ok l2 = true -> no_reset l2 = true -> keys_enough ks2 l2 ->
  flatten l1 = flatten l2 ->
  fst (ws_drain (drain_fuel l1) control (ws_init (mk_xport l1) ks1 fire skip)) =
  fst (ws_drain (drain_fuel l2) control (ws_init (mk_xport l2) ks2 fire skip)).
Proof.
  intros fire skip control l1 l2 ks1 ks2 S1 N1 B1 K1 S2 N2 K2 E.
  assert (B2 : bytes_ok (flatten l2)) by (rewrite <- E; exact B1).
  rewrite (ws_drain_results fire skip control l1 ks1 S1 N1 B1 K1).
  rewrite (ws_drain_results fire skip control l2 ks2 S2 N2 B2 K2).
  rewrite (stream_results_drain_fuel (code_verdict skip) l1 l2 E). reflexivity.
Qed.

(* ---------------------------------------------------------------------------------- *)
(* 3. What the client writes (automatic pong / close replies), same key stream          *)
(* ---------------------------------------------------------------------------------- *)

Theorem ws_drain_writes_segmentation_independent : forall fire skip control l1 l2 ks,
  script_ok l1 = true -> no_reset l1 = true -> bytes_ok (flatten l1) -> keys_enough ks l1 ->
  script_ok l2 = true -> no_reset l2 = true ->
  flatten l1 = flatten l2 ->
  writes_of (all_io (snd (ws_drain (drain_fuel l1) control (ws_init (mk_xport l1) ks fire skip)))) =
  writes_of (all_io (snd (ws_drain (drain_fuel l2) control (ws_init (mk_xport l2) ks fire skip)))).
Proof.
  intros fire skip control l1 l2 ks S1 N1 B1 K1 S2 N2 E.
  assert (B2 : bytes_ok (flatten l2)) by (rewrite <- E; exact B1).
  assert (K2 : keys_enough ks l2) by (unfold keys_enough in *; rewrite <- E; exact K1).
  destruct (ws_drain_writes fire skip control l1 ks S1 N1 B1 K1) as [W1 _].
  destruct (ws_drain_writes fire skip control l2 ks S2 N2 B2 K2) as [W2 _].
  rewrite W1, W2.
  rewrite (stream_results_drain_fuel (code_verdict skip) l1 l2 E). reflexivity.
Qed.

(* the statement exactly as asked (with the redundant keys_enough on the second script) *)
Corollary ws_drain_writes_segmentation_independent' : forall fire skip control l1 l2 ks1 ks2,
  script_ok l1 = true -> no_reset l1 = true -> bytes_ok (flatten l1) -> keys_enough ks1 l1 ->
  script_ok l2 = true -> no_reset l2 = true -> keys_enough ks2 l2 ->
  flatten l1 = flatten l2 -> ks1 = ks2 ->
  writes_of (all_io (snd (ws_drain (drain_fuel l1) control (ws_init (mk_xport l1) ks1 fire skip)))) =
  writes_of (all_io (snd (ws_drain (drain_fuel l2) control (ws_init (mk_xport l2) ks2 fire skip)))).
Proof.
  intros fire skip control l1 l2 ks1 ks2 S1 N1 B1 K1 S2 N2 _ E <-.
  now apply ws_drain_writes_segmentation_independent.
Qed.

(* both at once: observations and writes *)
Corollary ws_drain_segmentation_independent_both : forall fire skip control l1 l2 ks,
  script_ok l1 = true -> no_reset l1 = true -> bytes_ok (flatten l1) -> keys_enough ks l1 ->
  script_ok l2 = true -> no_reset l2 = true ->
  flatten l1 = flatten l2 ->
  let r1 := ws_drain (drain_fuel l1) control (ws_init (mk_xport l1) ks fire skip) in
  let r2 := ws_drain (drain_fuel l2) control (ws_init (mk_xport l2) ks fire skip) in
  fst r1 = fst r2 /\ writes_of (all_io (snd r1)) = writes_of (all_io (snd r2)).
Proof.
  intros fire skip control l1 l2 ks S1 N1 B1 K1 S2 N2 E.
  assert (K2 : keys_enough ks l2) by (unfold keys_enough in *; rewrite <- E; exact K1).
  split.
  - now apply ws_drain_segmentation_independent.
  - now apply ws_drain_writes_segmentation_independent.
Qed.

(* ---------------------------------------------------------------------------------- *)
(* 4. Examples                                                                         *)
(* ---------------------------------------------------------------------------------- *)

(* the stream: ping "A" | text fragment (FIN=0) "Hi" | continuation (FIN=1) "!" | close (empty) *)
Definition ex_stream : bytes := [137;1;65; 1;2;72;105; 128;1;33; 136;0].
(* one segment *)
Definition ex_l1 : list ev := [Data ex_stream].
(* cut in the middle of the ping, a timeout in the middle of the first fragment's payload,
   byte-by-byte for the continuation, a trailing timeout before the end of stream *)
Definition ex_l2 : list ev :=
  [Data [137]; Data [1;65;1]; Timeout; Data [2;72]; Timeout; Timeout; Data [105;128]; Data [1]; Data [33];
   Data [136]; Timeout; Data [0]; Timeout].
Definition ex_keys : list bytes :=
  [[1;2;3;4];[5;6;7;8];[9;10;11;12];[13;14;15;16];[1;1;1;1];[2;2;2;2];[3;3;3;3];[4;4;4;4];
   [5;5;5;5];[6;6;6;6];[7;7;7;7];[8;8;8;8]].

Example ex_same_stream : flatten ex_l1 = ex_stream /\ flatten ex_l2 = ex_stream.
Proof. vm_compute. split; reflexivity. Qed.

Example ex_hyps :
  script_ok ex_l1 = true /\ no_reset ex_l1 = true /\ script_ok ex_l2 = true /\ no_reset ex_l2 = true /\
  Nat.leb (length (flatten ex_l1)) (length ex_keys) = true.
Proof. vm_compute. repeat split; reflexivity. Qed.

Example ex_results :
  fst (ws_drain (drain_fuel ex_l1) true (ws_init (mk_xport ex_l1) ex_keys false false))
    = [ODeliver 9 1 [65]; ODeliver 1 1 [72;105;33]; ODeliver 8 1 []; OFail ConnClosed] /\
  fst (ws_drain (drain_fuel ex_l2) true (ws_init (mk_xport ex_l2) ex_keys false false))
    = [ODeliver 9 1 [65]; ODeliver 1 1 [72;105;33]; ODeliver 8 1 []; OFail ConnClosed].
Proof. vm_compute. split; reflexivity. Qed.

(* the writes: a pong "A" masked with the first key, a close reply (status 1000) with the second *)
Example ex_writes :
  writes_of (all_io (snd (ws_drain (drain_fuel ex_l1) true (ws_init (mk_xport ex_l1) ex_keys false false))))
    = [[138;129;1;2;3;4;64]; [136;130;5;6;7;8;6;238]] /\
  writes_of (all_io (snd (ws_drain (drain_fuel ex_l2) true (ws_init (mk_xport ex_l2) ex_keys false false))))
    = [[138;129;1;2;3;4;64]; [136;130;5;6;7;8;6;238]].
Proof. vm_compute. split; reflexivity. Qed.

(* [no_reset] cannot be dropped: same bytes, same segmentation, but the peer resets the connection
   instead of closing it in an orderly way -- the last observation differs. *)
Example no_reset_needed :
  let l1 := [Data [137;1;65]] in
  let l2 := [Data [137;1;65]; Reset] in
  let ks := [[1;2;3;4];[5;6;7;8];[9;10;11;12]] in
  script_ok l1 = true /\ script_ok l2 = true /\ no_reset l1 = true /\ no_reset l2 = false /\
  flatten l1 = flatten l2 /\
  fst (ws_drain (drain_fuel l1) true (ws_init (mk_xport l1) ks false false))
    = [ODeliver 9 1 [65]; OFail ConnClosed] /\
  fst (ws_drain (drain_fuel l2) true (ws_init (mk_xport l2) ks false false))
    = [ODeliver 9 1 [65]; OFail (Transport 104)].
Proof. vm_compute. repeat split; reflexivity. Qed.

Print Assumptions stream_results_fuel_stable.
Print Assumptions ws_drain_segmentation_independent.
Print Assumptions ws_drain_writes_segmentation_independent.
Print Assumptions ws_drain_writes_segmentation_independent'.
Print Assumptions ws_drain_segmentation_independent_both.
