(* WebSocket.recv() on top of recv_data_frame: it adds no exception of its own (in particular no
   UnicodeDecodeError when validation is off), returns text as str only if it is well-formed UTF-8, and otherwise
   passes the payload bytes through unchanged. *)
From Coq Require Import ZArith List Bool.
From WS Require Import Base.Res Base.Bytes Base.GenPrelude Gen.GenUtils Gen.GenAbnf Gen.GenCore
  Model.Xport Model.Recv Model.Send Model.Conn Model.Script.
Import ListNotations.
Open Scope Z_scope.

Theorem ws_recv_raises_only_what_recv_data_frame_raises : forall w e w',
  ws_recv w = (RExn e, w') -> ws_recv_data_frame (rdf_fuel w) false w = (Raise e, w').
Proof.
  intros w e w' H. unfold ws_recv in H.
  destruct (ws_recv_data_frame (rdf_fuel w) false w) as [[[op f]|e0] w1] eqn:E.
  - destruct (op =? OPCODE_TEXT).
    + destruct (validate_utf8 (a_data f)); discriminate H.
    + destruct (op =? OPCODE_BINARY); discriminate H.
  - inversion H; subst. reflexivity.
Qed.

Theorem ws_recv_result : forall w op f w',
  ws_recv_data_frame (rdf_fuel w) false w = (Ok (op, f), w') ->
  ws_recv w =
  (if op =? OPCODE_TEXT then (if validate_utf8 (a_data f) then RRecv 1 (a_data f) else RRecv 2 (a_data f))
   else if op =? OPCODE_BINARY then RRecv 2 (a_data f) else RRecv 0 [], w').
Proof.
  intros w op f w' H. unfold ws_recv. rewrite H.
  destruct (op =? OPCODE_TEXT); [destruct (validate_utf8 (a_data f)); reflexivity|].
  destruct (op =? OPCODE_BINARY); reflexivity.
Qed.

(* a str result is always well-formed UTF-8 *)
Theorem ws_recv_str_wellformed : forall w d w', ws_recv w = (RRecv 1 d, w') -> validate_utf8 d = true.
Proof.
  intros w d w' H. unfold ws_recv in H.
  destruct (ws_recv_data_frame (rdf_fuel w) false w) as [[[op f]|e0] w1]; [|discriminate H].
  destruct (op =? OPCODE_TEXT).
  - destruct (validate_utf8 (a_data f)) eqn:V; inversion H; subst; exact V.
  - destruct (op =? OPCODE_BINARY); inversion H.
Qed.

(* the payload of a data message is never altered by recv() *)
Theorem ws_recv_passthrough : forall w op f w',
  ws_recv_data_frame (rdf_fuel w) false w = (Ok (op, f), w') ->
  (op =? OPCODE_TEXT) || (op =? OPCODE_BINARY) = true ->
  exists k, ws_recv w = (RRecv k (a_data f), w') /\ (k = 1 \/ k = 2).
Proof.
  intros w op f w' H Hop. rewrite (ws_recv_result _ _ _ _ H).
  destruct (op =? OPCODE_TEXT).
  - destruct (validate_utf8 (a_data f)); eauto.
  - cbn in Hop. rewrite Hop. eauto.
Qed.

Print Assumptions ws_recv_raises_only_what_recv_data_frame_raises.
Print Assumptions ws_recv_str_wellformed.
Print Assumptions ws_recv_passthrough.
