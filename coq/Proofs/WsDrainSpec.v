(* Statement-level definitions for the end-to-end receive theorem: bytes on the transport ->
   what a caller of recv_data_frame observes (results, automatic replies), composing the
   byte-level theorem (RecvProof) with the frame-level ones (ConnProof). *)
From Coq Require Import ZArith List Bool.
From WS Require Import Base.Res Base.Bytes Spec.Frame Spec.Stream Gen.GenAbnf Gen.GenCore Model.Xport Model.Recv
  Model.Send Model.Conn Proofs.RecvSpec Proofs.ConnSpec.
Import ListNotations.
Open Scope Z_scope.

(* the caller keeps calling recv_data_frame(control): timeouts are retried; the run ends when the
   connection is reported closed (or on a transport error) *)
Fixpoint ws_drain (fuel : nat) (control : bool) (w : ws) : list fobs * ws :=
  match fuel with
  | O => ([], w)
  | S k =>
    match ws_recv_data_frame (rdf_fuel w) control w with
    | (Raise TimedOut, w') => ws_drain k control w'
    | (Raise ConnClosed, w') => ([OFail ConnClosed], w')
    | (Raise (Transport c), w') => ([OFail (Transport c)], w')
    | (Raise e, w') => let '(r, w'') := ws_drain k control w' in (OFail e :: r, w'')
    | (Ok (op, f), w') => let '(r, w'') := ws_drain k control w' in (ODeliver op (a_fin f) (a_data f) :: r, w'')
    end
  end.

(* what the spec says the caller must observe from the byte stream [s]: the frames the RFC decoder
   extracts, each judged by the validator, then handled one after another *)
Definition abnf_of_wframe (f : wframe) : abnf :=
  {| a_fin := h_fin (wh f); a_rsv1 := h_rsv1 (wh f); a_rsv2 := h_rsv2 (wh f); a_rsv3 := h_rsv3 (wh f);
     a_opcode := h_opcode (wh f); a_mask := match wkey f with Some _ => 1 | None => 0 end; a_data := wpayload f |}.

(* results of the byte level (stream_results) fed to the frame level: a frame rejected by the validator is an
   OFail Protocol observation and changes no state; an accepted frame goes through handle_frame *)
Fixpoint feed_results (fire skip control conn : bool) (cf : cframe) (rs : list (res wframe)) : list fobs :=
  match rs with
  | [] => []
  | Raise ConnClosed :: _ => [OFail ConnClosed]
  | Raise e :: r => OFail e :: feed_results fire skip control conn cf r
  | Ok f :: r =>
    let st := handle_frame fire skip control conn cf (abnf_of_wframe f) in
    map write_obs (filter (fun _ => false) (s_writes st))        (* replies are observed on the transport, not here *)
    ++ match s_out st with
       | Return op f' => [ODeliver op (a_fin f') (a_data f')]
       | Fail e => [OFail e]
       | Again => []
       end
    ++ feed_results fire skip control (conn && negb (wrote_close (s_writes st))) (s_cf st) r
  end.

(* the automatic replies, as frames: pongs and at most one close *)
Fixpoint replies_of (fire skip control conn : bool) (cf : cframe) (rs : list (res wframe)) : list wreq :=
  match rs with
  | [] => []
  | Raise _ :: r => replies_of fire skip control conn cf r
  | Ok f :: r =>
    let st := handle_frame fire skip control conn cf (abnf_of_wframe f) in
    s_writes st ++ replies_of fire skip control (conn && negb (wrote_close (s_writes st))) (s_cf st) r
  end.

(* the bytes of the i-th reply, with the i-th key of the key stream *)
Definition reply_bytes (r : wreq) (k : bytes) : res bytes :=
  match r with
  | WPong p => format_frame 1 OPCODE_PONG p k
  | WClose => format_frame 1 OPCODE_CLOSE (close_body close_default_status []) k
  end.

Definition writes_of (l : list io) : list bytes :=
  flat_map (fun e => match e with IWrite b => [b] | _ => [] end) l.
