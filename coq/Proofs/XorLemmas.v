(* Bit-level facts on Z.lxor and general lemmas on the cyclic xor (no dependency on Gen/). *)
From Coq Require Import ZArith List Bool Lia.
From WS Require Import Base.Bytes.
Import ListNotations.
Open Scope Z_scope.


(* ---------- xor and base-256 digits ---------- *)

Lemma lxor_mod256 : forall a b, (Z.lxor a b) mod 256 = Z.lxor (a mod 256) (b mod 256).
Proof.
  intros a b. change 256 with (2 ^ 8).
  rewrite <- !Z.land_ones by lia.
  apply Z.bits_inj'. intros n _.
  rewrite !Z.land_spec, !Z.lxor_spec, !Z.land_spec.
  destruct (Z.testbit a n), (Z.testbit b n), (Z.testbit (Z.ones 8) n); reflexivity.
Qed.

Lemma lxor_div256 : forall a b, (Z.lxor a b) / 256 = Z.lxor (a / 256) (b / 256).
Proof.
  intros a b. change 256 with (2 ^ 8).
  rewrite <- !Z.shiftr_div_pow2 by lia. apply Z.shiftr_lxor.
Qed.

Lemma lxor_byte : forall a b, 0 <= a < 256 -> 0 <= b < 256 -> 0 <= Z.lxor a b < 256.
Proof.
  intros a b Ha Hb.
  assert (H : Z.lxor a b = Z.lxor a b mod 256).
  { rewrite lxor_mod256. rewrite (Z.mod_small a), (Z.mod_small b) by lia. reflexivity. }
  rewrite H. apply Z.mod_pos_bound. lia.
Qed.

(* ---------- facts on xor_cyc ---------- *)

Lemma xor_cyc_length : forall key i d, length (xor_cyc key i d) = length d.
Proof.
  intros key i d. revert i. induction d as [|x d IH]; intros i; cbn [xor_cyc length].
  - reflexivity.
  - now rewrite IH.
Qed.

Lemma xor_cyc_invol : forall key i d,
  bytes_ok key -> bytes_ok d -> xor_cyc key i (xor_cyc key i d) = d.
Proof.
  intros key i d _ _. revert i. induction d as [|x d IH]; intros i; cbn [xor_cyc].
  - reflexivity.
  - rewrite IH. f_equal.
    rewrite Z.lxor_assoc, Z.lxor_nilpotent, Z.lxor_0_r. reflexivity.
Qed.

Lemma nth_byte_ok : forall key n, bytes_ok key -> byte_ok (nth n key 0).
Proof.
  intros key n Hk. destruct (nth_in_or_default n key 0) as [Hin | ->].
  - unfold bytes_ok in Hk. rewrite Forall_forall in Hk. now apply Hk.
  - unfold byte_ok. lia.
Qed.

Lemma xor_cyc_ok : forall key i d,
  bytes_ok key -> bytes_ok d -> bytes_ok (xor_cyc key i d).
Proof.
  intros key i d Hk Hd. revert i.
  induction Hd as [|x d Hx Hd IH]; intros i; cbn [xor_cyc].
  - constructor.
  - constructor; [|apply IH].
    apply lxor_byte; [exact Hx | apply (nth_byte_ok key _ Hk)].
Qed.

Lemma xor_cyc_app : forall key i a b,
  xor_cyc key i (a ++ b) = xor_cyc key i a ++ xor_cyc key (i + length a) b.
Proof.
  intros key i a b. revert i.
  induction a as [|x a IH]; intros i; cbn [xor_cyc app length].
  - now rewrite Nat.add_0_r.
  - rewrite IH. now rewrite Nat.add_succ_r.
Qed.

Lemma xor_cyc_period : forall key d i,
  key <> [] -> xor_cyc key (i + length key) d = xor_cyc key i d.
Proof.
  intros key d. induction d as [|x d IH]; intros i Hk; cbn [xor_cyc]; [reflexivity|].
  f_equal.
  - f_equal. f_equal.
    replace (i + length key)%nat with (i + 1 * length key)%nat by lia.
    apply Nat.mod_add. destruct key; [congruence | discriminate].
  - change (S (i + length key)) with (S i + length key)%nat. now apply IH.
Qed.

