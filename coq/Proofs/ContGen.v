(* Tie A for the message layer: the hand-written reassembly state machine of Model/Conn.v
   (cf_validate / cf_add / cf_is_fire / cf_extract, and the opcode dispatch of handle_frame)
   equals, decision by decision, what py2v regenerates from continuous_frame (websocket/_abnf.py)
   and from WebSocket.recv_data_frame (websocket/_core.py) -- Gen/GenCont.v.  The statement
   skeletons around those decisions are checked by the translator itself (fail-closed). *)
From Coq Require Import ZArith List Bool Lia.
From WS Require Import Base.Res Base.Bytes Base.GenPrelude Gen.GenUtils Gen.GenAbnf Gen.GenCore Gen.GenCont
  Model.Xport Model.Recv Model.Conn.
Import ListNotations.
Open Scope Z_scope.

Lemma msg_opcode_gen op : is_msg_opcode op = cont_add_sets_recving op.
Proof. unfold is_msg_opcode, cont_add_sets_recving. cbn [existsb]. rewrite orb_false_r. reflexivity. Qed.

Theorem cf_validate_gen : forall cf f, cf_validate cf f = cont_validate (c_recving cf) (a_opcode f).
Proof.
  intros cf f. unfold cf_validate, cont_validate. rewrite negb_involutive.
  destruct ((c_recving cf =? 0) && (a_opcode f =? OPCODE_CONT)); [reflexivity|].
  rewrite msg_opcode_gen. reflexivity.
Qed.

Theorem cf_add_gen : forall cf f,
  cf_add cf f =
  let cf1 := match c_data cf with
             | Some (op0, d) => {| c_data := Some (op0, d ++ a_data f); c_recving := c_recving cf |}
             | None => {| c_data := Some (a_opcode f, a_data f);
                          c_recving := if cont_add_sets_recving (a_opcode f) then a_opcode f else c_recving cf |}
             end in
  if cont_add_clears_recving (a_fin f) then {| c_data := c_data cf1; c_recving := 0 |} else cf1.
Proof. intros cf f. unfold cf_add, cont_add_clears_recving. rewrite msg_opcode_gen. reflexivity. Qed.

Theorem cf_is_fire_gen : forall fire f, cf_is_fire fire f = cont_is_fire (a_fin f) fire.
Proof. reflexivity. Qed.

Theorem cf_extract_gen : forall fire skip cf f,
  cf_extract fire skip cf f =
  match c_data cf with
  | None => (Raise (Internal TypeErr), cf)
  | Some (op0, d) =>
    let cf' := {| c_data := None; c_recving := c_recving cf |} in
    if cont_extract_rejects fire skip op0 d then (Raise Payload, cf') else (Ok (op0, with_data f d), cf')
  end.
Proof. reflexivity. Qed.

(* the opcode dispatch of recv_data_frame: which branch handles a frame *)
Theorem handle_frame_dispatch : forall fire skip control conn cf f,
  handle_frame fire skip control conn cf f =
  let op := a_opcode f in
  if rdf_is_data op then
    match cont_validate (c_recving cf) op with
    | Raise e => {| s_cf := cf; s_writes := []; s_out := Fail e |}
    | Ok _ =>
      let cf2 := cf_add cf f in
      if cont_is_fire (a_fin f) fire then
        match cf_extract fire skip cf2 f with
        | (Ok (op0, f'), cf3) => {| s_cf := cf3; s_writes := []; s_out := Return op0 f' |}
        | (Raise e, cf3) => {| s_cf := cf3; s_writes := []; s_out := Fail e |}
        end
      else {| s_cf := cf2; s_writes := []; s_out := Again |}
    end
  else if rdf_is_close op then
    {| s_cf := cf; s_writes := if conn then [WClose] else []; s_out := Return op f |}
  else if rdf_is_ping op then
    if rdf_ping_reply_ok (a_data f) then
      {| s_cf := cf; s_writes := [WPong (a_data f)]; s_out := if control then Return op f else Again |}
    else {| s_cf := cf; s_writes := []; s_out := Fail Protocol |}
  else if rdf_is_pong op then
    {| s_cf := cf; s_writes := []; s_out := if control then Return op f else Again |}
  else {| s_cf := cf; s_writes := []; s_out := Again |}.
Proof.
  intros fire skip control conn cf f. unfold handle_frame. cbv zeta.
  assert (Hd : is_msg_opcode (a_opcode f) || (a_opcode f =? OPCODE_CONT) = rdf_is_data (a_opcode f)).
  { unfold is_msg_opcode, rdf_is_data. cbn [existsb]. rewrite orb_false_r, orb_assoc. reflexivity. }
  rewrite Hd, cf_validate_gen.
  reflexivity.
Qed.

Print Assumptions cf_validate_gen.
Print Assumptions cf_add_gen.
Print Assumptions cf_extract_gen.
Print Assumptions handle_frame_dispatch.
