(* C19, tunnel part: the client proceeds through an HTTP proxy only on a 200 reply, the first bytes it
   sends are the CONNECT request, and configured credentials travel as one Basic token that decodes back. *)
From Coq Require Import ZArith List Bool.
From WS Require Import Base.Res Base.Bytes Base.Str Base.B64 Model.Xport Model.Http Model.Tunnel Proofs.HandshakeProof.
Import ListNotations.
Open Scope Z_scope.

Theorem tunnel_only_on_200 : forall x host port auth x',
  tunnel x host port auth = (Ok tt, x') ->
  exists h, read_headers (xlog x (IWrite (connect_request host port auth))) = (Ok h, x') /\ h_status h = Some 200.
Proof.
  intros x host port auth x' H. unfold tunnel in H.
  destruct (read_headers (xlog x (IWrite (connect_request host port auth)))) as [[h|e] x2] eqn:E.
  - destruct (h_status h) as [st|] eqn:Es; [|discriminate].
    destruct st as [|p|p]; try discriminate.
    exists h. assert (x2 = x') as <-.
    { destruct p; try discriminate; repeat (destruct p; try discriminate); inversion H; reflexivity. }
    split; [reflexivity|].
    destruct p; try discriminate; repeat (destruct p; try discriminate). exact Es.
  - discriminate.
Qed.

Theorem tunnel_failure_is_proxy_error : forall x host port auth e x',
  tunnel x host port auth = (Raise e, x') -> e = ProxyErr.
Proof.
  intros x host port auth e x' H. unfold tunnel in H.
  destruct (read_headers _) as [[h|e0] x2]; [|inversion H; reflexivity].
  destruct (h_status h) as [st|]; [|inversion H; reflexivity].
  destruct st as [|p|p]; try (inversion H; reflexivity).
  destruct p; try (inversion H; reflexivity); repeat (destruct p; try (inversion H; reflexivity)).
Qed.

(* the first transport event of the exchange is the write of the CONNECT request *)
Theorem tunnel_first_bytes : forall x host port auth r x',
  tunnel x host port auth = (r, x') ->
  exists tail, iolog x' = iolog x ++ IWrite (connect_request host port auth) :: tail.
Proof.
  intros x host port auth r x' H. unfold tunnel in H.
  destruct (read_headers (xlog x (IWrite (connect_request host port auth)))) as [rr x2] eqn:E.
  pose proof (read_headers_ext _ _ _ E) as X.
  assert (x' = x2) as -> by (destruct rr as [h|e]; [destruct (h_status h) as [[|p|p]|]|]; try (inversion H; reflexivity);
                             destruct p; try (inversion H; reflexivity); repeat (destruct p; try (inversion H; reflexivity))).
  unfold ext in X. destruct X as [tail [Hl _]]. exists tail. rewrite Hl. cbn [xlog iolog]. now rewrite <- app_assoc.
Qed.

(* the Basic token decodes back to user[:password] *)
Theorem credentials_roundtrip : forall auth c, credentials auth = Some c -> bytes_ok c ->
  b64_decode (b64_encode c) = Some c.
Proof. intros auth c _ Hok. now apply b64_roundtrip. Qed.

Example tunnel_request_example :
  connect_request [104] 80 (Some ([117], Some [112])) =
  [67;79;78;78;69;67;84;32;104;58;56;48;32;72;84;84;80;47;49;46;49;13;10;72;111;115;116;58;32;104;58;56;48;13;10;
   80;114;111;120;121;45;65;117;116;104;111;114;105;122;97;116;105;111;110;58;32;66;97;115;105;99;32;100;84;112;119;13;10;13;10].
Proof. vm_compute. reflexivity. Qed.

Print Assumptions tunnel_only_on_200.
Print Assumptions tunnel_failure_is_proxy_error.
Print Assumptions tunnel_first_bytes.
Print Assumptions credentials_roundtrip.
