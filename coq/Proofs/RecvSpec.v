(* Statement-level definitions for the byte-level receive theorems (C02, C03). *)
From Coq Require Import ZArith List Bool.
From WS Require Import Base.Res Base.Bytes Base.GenPrelude Spec.Frame Spec.Stream Gen.GenAbnf
  Model.Xport Model.Recv.
Import ListNotations.
Open Scope Z_scope.

(* the model's frame seen as a wire frame (has_mask/key are not part of what the caller gets) *)
Definition wframe_of (a : abnf) : wframe :=
  {| wh := {| h_fin := a_fin a; h_rsv1 := a_rsv1 a; h_rsv2 := a_rsv2 a; h_rsv3 := a_rsv3 a;
              h_opcode := a_opcode a |};
     wkey := None; wpayload := a_data a |}.
Definition strip_key (f : wframe) : wframe := {| wh := wh f; wkey := None; wpayload := wpayload f |}.

(* the code's own per-frame check, as a verdict on wire frames *)
Definition code_verdict (skip : bool) (f : wframe) : res unit :=
  abnf_validate (h_fin (wh f)) (h_rsv1 (wh f)) (h_rsv2 (wh f)) (h_rsv3 (wh f)) (h_opcode (wh f))
                (wpayload f) skip.

(* repeated recv_frame calls: timeouts are retried, the run ends at end of stream / reset *)
Fixpoint drain (fuel : nat) (skip : bool) (fb : fbuf) (x : xport) : list (res wframe) :=
  match fuel with
  | O => []
  | S k =>
    match recv_frame (fuel_for (inbox x)) skip fb x with
    | (Raise TimedOut, fb', x') => drain k skip fb' x'
    | (Raise ConnClosed, _, _) => [Raise ConnClosed]
    | (Raise (Transport c), _, _) => [Raise (Transport c)]
    | (Raise e, fb', x') => Raise e :: drain k skip fb' x'
    | (Ok a, fb', x') => Ok (wframe_of a) :: drain k skip fb' x'
    end
  end.

Definition drain_fuel (l : list ev) : nat := S (length (flatten l) + length l).
Definition mk_xport (l : list ev) : xport := {| inbox := l; iolog := [] |}.
