(* A redirect hop is an ordinary opening handshake to the new target.

   Every request that WebSocket.connect (Model/Connect.v, [ws_connect]) records is the request that
   handshake() builds for the URL of its own hop, from the target [parse_url] gives for that URL, the
   caller's options and one fresh random draw; and the hop URLs are the initial URL followed by the
   Location values of the successive redirect responses.

   WHAT A REQUEST DEPENDS ON.  [do_handshake url tg o x st] builds its request with
     get_handshake_headers resource (url_scheme url) host port o (b64_encode draw) []
   where (host, port, resource, _) = tg and draw is the head of [cs_rand st].  The last argument (the
   server cookie) is the constant [] : there is no cookie jar in this model, and neither the
   transport [x] nor any other component of the state enters the request.  So the request is a pure
   function [hop_request url tg o draw] of the URL (its scheme decides the default Origin), the
   parsed target, the options and the draw; the only state component involved is the head of
   [cs_rand].  [single_hop_is_direct] below is therefore stated with exactly that made equal. *)
From Coq Require Import ZArith List Bool Lia.
From WS Require Import Base.Res Base.Bytes Base.Str Base.B64 Gen.GenHandshake Model.Xport Model.Http
  Model.Handshake Model.Url Model.Open Model.Connect Proofs.ConnectProof.
Import ListNotations.
Open Scope Z_scope.

(* ================================================================================== *)
(* Part 0 : the request builder of one hop                                             *)
(* ================================================================================== *)

(* the request bytes and the key handshake() sends to [url] (parsed as [tg]) with options [o] when
   os.urandom(16) returns [draw]; None when _get_handshake_headers raises *)
Definition hop_request (url : str) (tg : target) (o : hsopts) (draw : bytes) : option (bytes * str) :=
  let '(host, port, resource, _) := tg in
  match get_handshake_headers resource (url_scheme url) host port o (b64_encode draw) [] with
  | Raise _ => None
  | Ok (lines, key) => Some (request_bytes lines, key)
  end.

(* (1) what one call of handshake() records.
   - no random draw left: nothing happens at all (the model's OutOfFuel);
   - otherwise one draw is consumed, and
     - building the headers raised: nothing is recorded, nothing is written, the call raises;
     - else exactly the request built by [hop_request] from that draw is recorded, and the call is
       [handshake] on that request and key. *)
Lemma do_handshake_records url tg o x st r x' st' :
  do_handshake url tg o x st = (r, x', st') ->
  match cs_rand st with
  | [] => r = Raise OutOfFuel /\ x' = x /\ st' = st
  | draw :: rand' =>
    cs_rand st' = rand' /\
    match hop_request url tg o draw with
    | None => cs_requests st' = cs_requests st /\ x' = x /\ exists e, r = Raise e
    | Some req =>
      cs_requests st' = cs_requests st ++ [req] /\
      handshake x (fst req) (snd req) (o_subprotocols o) = (r, x')
    end
  end.
Proof.
  destruct tg as [[[host port] resource] sec]. unfold do_handshake, hop_request. cbv beta iota zeta.
  destruct (cs_rand st) as [|draw rand'] eqn:Er.
  - intros H. inversion H; subst. repeat split; reflexivity.
  - destruct (get_handshake_headers resource (url_scheme url) host port o (b64_encode draw) [])
      as [[lines key]|e] eqn:Eg.
    + destruct (handshake x (request_bytes lines) key (o_subprotocols o)) as [r0 x0] eqn:Eh.
      intros H. inversion H; subst. cbn [cs_rand cs_requests fst snd].
      split; [reflexivity|]. split; [reflexivity|exact Eh].
    + intros H. inversion H; subst. cbn [cs_rand cs_requests].
      split; [reflexivity|]. split; [reflexivity|]. split; [reflexivity|]. exists e. reflexivity.
Qed.

(* the same, as two cases *)
Lemma do_handshake_step url tg o x st r x' st' :
  do_handshake url tg o x st = (r, x', st') ->
  (cs_requests st' = cs_requests st /\ exists e, r = Raise e)
  \/
  (exists draw rand' req,
     cs_rand st = draw :: rand' /\ cs_rand st' = rand' /\
     hop_request url tg o draw = Some req /\
     cs_requests st' = cs_requests st ++ [req] /\
     handshake x (fst req) (snd req) (o_subprotocols o) = (r, x')).
Proof.
  intros H. apply do_handshake_records in H.
  destruct (cs_rand st) as [|draw rand'] eqn:Er.
  - destruct H as (-> & _ & ->). left. split; [reflexivity|]. exists OutOfFuel. reflexivity.
  - destruct H as (Er' & H).
    destruct (hop_request url tg o draw) as [req|] eqn:Eh.
    + destruct H as (Eq & Hh). right. exists draw, rand', req.
      repeat split; assumption.
    + destruct H as (Eq & _ & He). left. split; assumption.
Qed.

(* a request is recorded exactly when a draw is left and the headers can be built from it *)
Corollary do_handshake_records_iff url tg o x st r x' st' :
  do_handshake url tg o x st = (r, x', st') ->
  (cs_requests st' <> cs_requests st <->
   exists draw rand' req, cs_rand st = draw :: rand' /\ hop_request url tg o draw = Some req).
Proof.
  intros H. apply do_handshake_records in H. split.
  - intros Hne. destruct (cs_rand st) as [|draw rand'].
    + destruct H as (_ & _ & ->). exfalso. apply Hne. reflexivity.
    + destruct H as (_ & H). destruct (hop_request url tg o draw) as [req|] eqn:Eh.
      * exists draw, rand', req. split; [reflexivity|exact Eh].
      * destruct H as (Eq & _). exfalso. exact (Hne Eq).
  - intros (draw & rand' & req & Er & Eh). rewrite Er in H. destruct H as (_ & H).
    rewrite Eh in H. destruct H as (Eq & _). rewrite Eq. intros E.
    rewrite <- (app_nil_r (cs_requests st)) in E at 2. apply app_inv_head in E. discriminate E.
Qed.

(* _http.connect returns the target parse_url gives for the url *)
Lemma open_conn_target url prepared st x tg st' :
  open_conn url prepared st = (Ok (x, tg), st') -> parse_url url = Ok tg.
Proof.
  unfold open_conn. intros H.
  destruct (parse_url url) as [tg0|e]; [|discriminate H].
  destruct prepared as [xp|]; [inversion H; reflexivity|].
  destruct (cs_net st) as [|c rest]; [discriminate H|].
  destruct (n_addrs c) as [|a l]; [discriminate H|].
  destruct (open_socket (a :: l)) as [[i|e] lg]; inversion H; reflexivity.
Qed.

(* ================================================================================== *)
(* Part 1 : the chain of hops                                                          *)
(* ================================================================================== *)

(* [url'] is the Location of a redirect response to the exchange of request [req] (validated with
   the key sent in [req] and the caller's subprotocols) *)
Definition redirects_to (o : hsopts) (req : bytes * str) (url' : str) : Prop :=
  exists x status hs x',
    handshake x (fst req) (snd req) (o_subprotocols o) = (Ok (HsRedirect status hs), x') /\
    alist_get S_LOCATION hs = Some url'.

(* [hops o urls rand reqs] : the requests [reqs] are, in order, the requests built for the URLs
   [urls] (each parsed by parse_url) with the options [o] and the successive draws of [rand]; and
   each URL after the first is the Location of a redirect response to the request before it. *)
Inductive hops (o : hsopts) : list str -> list bytes -> list (bytes * str) -> Prop :=
| hops_nil : forall rand, hops o [] rand []
| hops_cons : forall url tg draw rand req urls reqs,
    parse_url url = Ok tg ->
    hop_request url tg o draw = Some req ->
    match urls with [] => True | url' :: _ => redirects_to o req url' end ->
    hops o urls rand reqs ->
    hops o (url :: urls) (draw :: rand) (req :: reqs).

(* the relation, read position by position *)
Lemma hops_length o : forall urls rand reqs,
  hops o urls rand reqs -> length urls = length reqs /\ (length reqs <= length rand)%nat.
Proof.
  induction 1 as [rand|url tg draw rand req urls reqs Hp Hr Hl Hh [IH1 IH2]]; cbn [length].
  - split; [reflexivity|lia].
  - split; lia.
Qed.

Lemma hops_nth o : forall urls rand reqs,
  hops o urls rand reqs ->
  forall i du dd dr, (i < length reqs)%nat ->
    exists tg, parse_url (nth i urls du) = Ok tg /\
               hop_request (nth i urls du) tg o (nth i rand dd) = Some (nth i reqs dr).
Proof.
  induction 1 as [rand|url tg draw rand req urls reqs Hp Hr Hl Hh IH]; intros i du dd dr Hi.
  - cbn [length] in Hi. lia.
  - destruct i as [|i]; cbn [nth].
    + exists tg. split; assumption.
    + apply IH. cbn [length] in Hi. lia.
Qed.

Lemma hops_chain o : forall urls rand reqs,
  hops o urls rand reqs ->
  forall i du dr, (S i < length reqs)%nat -> redirects_to o (nth i reqs dr) (nth (S i) urls du).
Proof.
  induction 1 as [rand|url tg draw rand req urls reqs Hp Hr Hl Hh IH]; intros i du dr Hi.
  - cbn [length] in Hi. lia.
  - cbn [length] in Hi. destruct i as [|i].
    + destruct urls as [|u urls'].
      * apply hops_length in Hh. destruct Hh as [Hlen _]. cbn [length] in Hlen. lia.
      * cbn [nth]. exact Hl.
    + change (nth (S i) (req :: reqs) dr) with (nth i reqs dr).
      change (nth (S (S i)) (url :: urls) du) with (nth (S i) urls du).
      apply IH. lia.
Qed.

(* the response the loop holds is a redirect to the first URL of the chain that follows *)
Definition head_link (resp : hs_result) (urls : list str) : Prop :=
  match urls with
  | [] => True
  | u :: _ => exists status hs, resp = HsRedirect status hs /\ alist_get S_LOCATION hs = Some u
  end.

Lemma no_hop o (st st' : cstate) resp :
  cs_requests st' = cs_requests st ->
  exists urls reqs,
    cs_requests st' = cs_requests st ++ reqs /\ hops o urls (cs_rand st) reqs /\ head_link resp urls.
Proof.
  intros E. exists [], []. rewrite app_nil_r. split; [exact E|]. split; [constructor|exact I].
Qed.

Lemma redirect_loop_hops o : forall n resp x st r cur st',
  redirect_loop n o resp x st = (r, cur, st') ->
  exists urls reqs,
    cs_requests st' = cs_requests st ++ reqs /\
    hops o urls (cs_rand st) reqs /\ head_link resp urls.
Proof.
  induction n as [|k IH]; intros resp x st r cur st' H; cbn [redirect_loop] in H.
  - inversion H; subst. apply no_hop. reflexivity.
  - destruct resp as [status hs|status hs sub]; [|exact (IH _ _ _ _ _ _ H)].
    destruct (alist_get S_LOCATION hs) as [[|c l]|] eqn:El;
      try (inversion H; subst; apply no_hop; reflexivity).
    destruct (parse_url (c :: l)) as [tg0|e0] eqn:Ep;
      [|inversion H; subst; apply no_hop; reflexivity].
    destruct (open_conn (c :: l) None st) as [[[x2 tg]|e] st1] eqn:E1.
    + pose proof (open_conn_target _ _ _ _ _ _ E1) as Etg.
      pose proof (open_conn_fields _ _ _ _ _ E1) as (_ & _ & _ & _ & _ & Er1 & Eq1).
      destruct (do_handshake (c :: l) tg o x2 _) as [[r1 x3] st3] eqn:E2.
      apply do_handshake_step in E2. cbn [cs_rand cs_requests] in E2.
      rewrite Er1, Eq1 in E2.
      destruct E2 as [(Eq3 & (e & ->))|(draw & rand' & req & Er & Er3 & Eh & Eq3 & Hh)].
      * inversion H; subst. apply no_hop. exact Eq3.
      * destruct r1 as [resp'|e].
        -- destruct (IH _ _ _ _ _ _ H) as (urls & reqs & Eq & Hhops & Hl).
           exists ((c :: l) :: urls), (req :: reqs). split; [|split].
           ++ rewrite Eq, Eq3, <- app_assoc. reflexivity.
           ++ rewrite Er. rewrite Er3 in Hhops.
              apply (hops_cons o (c :: l) tg draw rand' req urls reqs Etg Eh); [|exact Hhops].
              destruct urls as [|u urls']; [exact I|].
              destruct Hl as (s' & hs' & -> & Hloc). exists x2, s', hs', x3.
              split; assumption.
           ++ exists status, hs. split; [reflexivity|exact El].
        -- injection H as Hr Hc Hs; subst r cur st'.
           exists [c :: l], [req]. split; [exact Eq3|]. split.
           ++ rewrite Er.
              apply (hops_cons o (c :: l) tg draw rand' req [] [] Etg Eh); [exact I|constructor].
           ++ exists status, hs. split; [reflexivity|exact El].
    + inversion H; subst. apply no_hop.
      pose proof (open_conn_fields _ _ _ _ _ E1) as (_ & _ & _ & _ & _ & _ & Eq1). exact Eq1.
Qed.

(* (2) every request recorded by connect() is the request of a direct handshake to the URL of its
   hop: the requests added are built by [hop_request] for URLs u_0, u_1, ... with targets
   parse_url u_i, the options of the caller and the successive draws of cs_rand; u_0 is the URL
   connect() was called with and u_{i+1} is the Location of the redirect response to request i. *)
Theorem redirect_hops_are_direct : forall url o limit prepared st r st',
  ws_connect url o limit prepared st = (r, st') ->
  exists urls reqs,
    cs_requests st' = cs_requests st ++ reqs /\
    hops o urls (cs_rand st) reqs /\
    (length reqs <= Z.to_nat limit + 1)%nat /\
    match urls with [] => reqs = [] | u :: _ => u = url end.
Proof.
  intros url o limit prepared st r st' H. unfold ws_connect in H.
  destruct (open_conn url prepared st) as [[[x tg]|e0] st1] eqn:E1.
  - pose proof (open_conn_target _ _ _ _ _ _ E1) as Etg.
    pose proof (open_conn_fields _ _ _ _ _ E1) as (_ & _ & _ & _ & _ & Er1 & Eq1).
    destruct (do_handshake url tg o x st1) as [[r1 x1] st2] eqn:E2.
    apply do_handshake_step in E2. rewrite Er1, Eq1 in E2.
    destruct E2 as [(Eq2 & (e & ->))|(draw & rand' & req & Er & Er2 & Eh & Eq2 & Hh)].
    + unfold fail_with in H. inversion H; subst. cbn [cs_requests].
      exists [], []. rewrite app_nil_r. split; [exact Eq2|]. split; [constructor|].
      split; [cbn [length]; lia|reflexivity].
    + destruct r1 as [resp|e1].
      * destruct (redirect_loop (Z.to_nat limit) o resp x1 st2) as [[r3 cur] st3] eqn:E3.
        pose proof (redirect_loop_bound _ _ _ _ _ _ _ _ E3) as Hb.
        destruct (redirect_loop_hops _ _ _ _ _ _ _ _ E3) as (urls & reqs & Eq3 & Hhops & Hl).
        assert (Eq' : cs_requests st' = cs_requests st3).
        { destruct r3 as [[resp' x2]|e2]; [destruct resp' as [s1 h1|s1 h1 sub1]|];
            unfold fail_with in H; inversion H; subst; reflexivity. }
        exists (url :: urls), (req :: reqs). split; [|split; [|split]].
        -- rewrite Eq', Eq3, Eq2, <- app_assoc. reflexivity.
        -- rewrite Er. rewrite Er2 in Hhops.
           apply (hops_cons o url tg draw rand' req urls reqs Etg Eh); [|exact Hhops].
           destruct urls as [|u urls']; [exact I|].
           destruct Hl as (s' & hs' & -> & Hloc). exists x, s', hs', x1. split; assumption.
        -- rewrite Eq3, app_length in Hb. cbn [length]. lia.
        -- reflexivity.
      * unfold fail_with in H. injection H as Hr Hs; subst r st'. cbn [cs_requests].
        exists [url], [req]. split; [exact Eq2|]. split; [|split].
        -- rewrite Er.
           apply (hops_cons o url tg draw rand' req [] [] Etg Eh); [exact I|constructor].
        -- cbn [length]. lia.
        -- reflexivity.
  - inversion H; subst.
    pose proof (open_conn_fields _ _ _ _ _ E1) as (_ & _ & _ & _ & _ & _ & Eq1).
    exists [], []. rewrite app_nil_r. split; [exact Eq1|]. split; [constructor|].
    split; [cbn [length]; lia|reflexivity].
Qed.

(* the same statement without the inductive relation: lists of URLs and requests of equal length,
   read position by position *)
Corollary redirect_hops_positions : forall url o limit prepared st r st',
  ws_connect url o limit prepared st = (r, st') ->
  exists (urls : list str) (reqs : list (bytes * str)),
    cs_requests st' = cs_requests st ++ reqs /\
    length urls = length reqs /\
    (length reqs <= length (cs_rand st))%nat /\
    (length reqs <= Z.to_nat limit + 1)%nat /\
    (reqs <> [] -> nth 0 urls [] = url) /\
    (forall i, (i < length reqs)%nat ->
       exists tg, parse_url (nth i urls []) = Ok tg /\
                  hop_request (nth i urls []) tg o (nth i (cs_rand st) []) = Some (nth i reqs ([], []))) /\
    (forall i, (S i < length reqs)%nat ->
       redirects_to o (nth i reqs ([], [])) (nth (S i) urls [])).
Proof.
  intros url o limit prepared st r st' H.
  destruct (redirect_hops_are_direct _ _ _ _ _ _ _ H) as (urls & reqs & Eq & Hh & Hb & Hu).
  exists urls, reqs. destruct (hops_length _ _ _ _ Hh) as [L1 L2].
  split; [exact Eq|]. split; [exact L1|]. split; [exact L2|]. split; [exact Hb|]. split; [|split].
  - intros Hne. destruct urls as [|u urls']; [contradiction|]. cbn [nth]. exact Hu.
  - intros i Hi. exact (hops_nth _ _ _ _ Hh i [] [] ([], []) Hi).
  - intros i Hi. exact (hops_chain _ _ _ _ Hh i [] ([], []) Hi).
Qed.

(* ================================================================================== *)
(* Part 2 : one redirect                                                               *)
(* ================================================================================== *)

Lemma no_growth {A} (l : list A) a m : l = l ++ a :: m -> False.
Proof.
  intros E. rewrite <- (app_nil_r l) in E at 1. apply app_inv_head in E. discriminate E.
Qed.

(* the loop, entered with a redirect to [url'] : the first request it records (if any) is the
   request of a handshake to [url'] with the next draw *)
Lemma redirect_loop_first_hop o : forall n status hs url' x st r cur st' req more d rand,
  alist_get S_LOCATION hs = Some url' ->
  redirect_loop n o (HsRedirect status hs) x st = (r, cur, st') ->
  cs_requests st' = cs_requests st ++ req :: more ->
  cs_rand st = d :: rand ->
  exists tg', parse_url url' = Ok tg' /\ hop_request url' tg' o d = Some req.
Proof.
  intros n status hs url' x st r cur st' req more d rand Hloc H Hreq Hrand.
  destruct n as [|k]; cbn [redirect_loop] in H.
  - inversion H; subst. exfalso. exact (no_growth _ _ _ Hreq).
  - rewrite Hloc in H. destruct url' as [|c l].
    + inversion H; subst. exfalso. exact (no_growth _ _ _ Hreq).
    + destruct (parse_url (c :: l)) as [tg0|e0] eqn:Ep.
      2:{ inversion H; subst. exfalso. exact (no_growth _ _ _ Hreq). }
      destruct (open_conn (c :: l) None st) as [[[x2 tg]|e] st1] eqn:E1.
      * pose proof (open_conn_target _ _ _ _ _ _ E1) as Etg.
        pose proof (open_conn_fields _ _ _ _ _ E1) as (_ & _ & _ & _ & _ & Er1 & Eq1).
        destruct (do_handshake (c :: l) tg o x2 _) as [[r1 x3] st3] eqn:E2.
        apply do_handshake_step in E2. cbn [cs_rand cs_requests] in E2.
        rewrite Er1, Eq1, Hrand in E2.
        destruct E2 as [(Eq3 & (e & ->))|(draw & rand' & rq & Er & Er3 & Eh & Eq3 & Hh)].
        -- inversion H; subst. exfalso. rewrite Eq3 in Hreq. exact (no_growth _ _ _ Hreq).
        -- injection Er as <- <-. exists tg. rewrite Ep in Etg. split; [exact Etg|].
           rewrite Eh. f_equal.
           assert (G : exists tl, cs_requests st' = cs_requests st3 ++ tl).
           { destruct r1 as [resp'|e].
             - destruct (redirect_loop_hops _ _ _ _ _ _ _ _ H) as (_ & reqs & Eq & _). eauto.
             - inversion H; subst. exists []. now rewrite app_nil_r. }
           destruct G as (tl & G). rewrite G, Eq3, <- app_assoc in Hreq.
           apply app_inv_head in Hreq. cbn [app] in Hreq. inversion Hreq. reflexivity.
      * inversion H; subst. exfalso.
        pose proof (open_conn_fields _ _ _ _ _ E1) as (_ & _ & _ & _ & _ & _ & Eq1).
        rewrite Eq1 in Hreq. exact (no_growth _ _ _ Hreq).
Qed.

(* the first request of a connection that records one is the request built for its own URL with
   the first draw *)
Lemma direct_first_request url o limit prepared st r st' req more d rand :
  ws_connect url o limit prepared st = (r, st') ->
  cs_requests st' = cs_requests st ++ req :: more ->
  cs_rand st = d :: rand ->
  exists tg, parse_url url = Ok tg /\ hop_request url tg o d = Some req.
Proof.
  intros H Hreq Hrand.
  destruct (redirect_hops_are_direct _ _ _ _ _ _ _ H) as (urls & reqs & Eq & Hh & _ & Hu).
  rewrite Eq in Hreq. apply app_inv_head in Hreq. subst reqs. rewrite Hrand in Hh.
  inversion Hh as [|u tg dr rd rq us rs Hp Hr Hl Hrest]; subst.
  cbn iota in Hu. subst u. exists tg. split; assumption.
Qed.

(* (3) one redirect.  Connection A is answered on its first request by a redirect to [url'] and
   goes on to send a second request (to the redirect target).  Connection B is a direct connect()
   to [url'] with the same options, in ANY state whose first pending random draw is the draw A had
   left for its second hop, through any transport (prepared or granted by the network), with any
   redirect limit; it records at least one request.  Then the request A sent to the redirect
   target is, byte for byte and with the same key, the first request of B; and it is the request
   [hop_request] builds for [url'].

   Hypotheses: "both reach the handshake" is stated as "a request was recorded" ([HreqA], [HreqB]);
   by [do_handshake_records_iff] that is exactly: the connection was opened, a draw was left, and
   the headers could be built.  Nothing else of the two states is related: the request depends on
   no state component besides the head of cs_rand (there is no cookie jar in the model; the
   server-cookie argument of get_handshake_headers is the constant []). *)
Theorem single_hop_is_direct :
  forall o urlA limitA preparedA stA rA stA' x tg st1 status hs x1 st2 url'
         req0 req1 moreA d0 d1 randA
         limitB preparedB stB rB stB' reqB moreB randB,
  (* A: the first exchange ends in a redirect to url' *)
  open_conn urlA preparedA stA = (Ok (x, tg), st1) ->
  do_handshake urlA tg o x st1 = (Ok (HsRedirect status hs), x1, st2) ->
  alist_get S_LOCATION hs = Some url' ->
  ws_connect urlA o limitA preparedA stA = (rA, stA') ->
  cs_requests stA' = cs_requests stA ++ req0 :: req1 :: moreA ->
  cs_rand stA = d0 :: d1 :: randA ->
  (* B: direct, same options, same draw *)
  ws_connect url' o limitB preparedB stB = (rB, stB') ->
  cs_requests stB' = cs_requests stB ++ reqB :: moreB ->
  cs_rand stB = d1 :: randB ->
  req1 = reqB /\
  exists tg', parse_url url' = Ok tg' /\ hop_request url' tg' o d1 = Some req1.
Proof.
  intros o urlA limitA preparedA stA rA stA' x tg st1 status hs x1 st2 url'
         req0 req1 moreA d0 d1 randA limitB preparedB stB rB stB' reqB moreB randB
         E1 E2 Hloc HA HreqA HrandA HB HreqB HrandB.
  (* B *)
  destruct (direct_first_request _ _ _ _ _ _ _ _ _ _ _ HB HreqB HrandB) as (tgB & HpB & HrB).
  (* A *)
  pose proof (open_conn_fields _ _ _ _ _ E1) as (_ & _ & _ & _ & _ & Er1 & Eq1).
  pose proof (do_handshake_step _ _ _ _ _ _ _ _ E2) as D. rewrite Er1, Eq1, HrandA in D.
  destruct D as [(_ & (e & He))|(draw & rand' & rq & Er & Er2 & Eh & Eq2 & Hh)]; [discriminate He|].
  injection Er as <- <-.
  unfold ws_connect in HA. rewrite E1, E2 in HA.
  destruct (redirect_loop (Z.to_nat limitA) o (HsRedirect status hs) x1 st2) as [[r3 cur] st3] eqn:E3.
  assert (Eq' : cs_requests stA' = cs_requests st3).
  { destruct r3 as [[resp' x2]|e2]; [destruct resp' as [s1 h1|s1 h1 sub1]|];
      unfold fail_with in HA; inversion HA; subst; reflexivity. }
  destruct (redirect_loop_hops _ _ _ _ _ _ _ _ E3) as (urls & reqs & Eq3 & _).
  rewrite Eq', Eq3, Eq2, <- app_assoc in HreqA. apply app_inv_head in HreqA.
  cbn [app] in HreqA. inversion HreqA; subst rq reqs.
  destruct (redirect_loop_first_hop o _ _ _ _ _ _ _ _ _ _ _ _ _ Hloc E3 Eq3 Er2) as (tg' & Hp' & Hr').
  rewrite HpB in Hp'. inversion Hp'; subst tg'.
  split.
  - rewrite HrB in Hr'. inversion Hr'. reflexivity.
  - exists tgB. split; assumption.
Qed.

(* The hypotheses of (3) can be met: when the network grants both connections and the headers can
   be built, both requests ARE recorded. *)

(* a direct connect() that is granted a transport, has a draw left and can build the headers
   records that request first *)
Lemma direct_request_recorded url o limit prepared st r st' x tg st1 d rand req :
  open_conn url prepared st = (Ok (x, tg), st1) ->
  cs_rand st = d :: rand ->
  hop_request url tg o d = Some req ->
  ws_connect url o limit prepared st = (r, st') ->
  exists more, cs_requests st' = cs_requests st ++ req :: more.
Proof.
  intros E1 Hrand Hreq H.
  pose proof (open_conn_fields _ _ _ _ _ E1) as (_ & _ & _ & _ & _ & Er1 & Eq1).
  unfold ws_connect in H. rewrite E1 in H.
  destruct (do_handshake url tg o x st1) as [[r1 x1] st2] eqn:E2.
  pose proof (do_handshake_records _ _ _ _ _ _ _ _ E2) as D.
  rewrite Er1, Hrand, Hreq, Eq1 in D. destruct D as (_ & Eq2 & _).
  destruct r1 as [resp|e1].
  - destruct (redirect_loop (Z.to_nat limit) o resp x1 st2) as [[r3 cur] st3] eqn:E3.
    destruct (redirect_loop_hops _ _ _ _ _ _ _ _ E3) as (urls & reqs & Eq3 & _).
    exists reqs.
    assert (Eq' : cs_requests st' = cs_requests st3).
    { destruct r3 as [[resp' x2]|e2]; [destruct resp' as [s1 h1|s1 h1 sub1]|];
        unfold fail_with in H; inversion H; subst; reflexivity. }
    rewrite Eq', Eq3, Eq2, <- app_assoc. reflexivity.
  - unfold fail_with in H. inversion H; subst. cbn [cs_requests]. exists []. exact Eq2.
Qed.

(* a connect() whose first response is a redirect to [url'], that may follow at least one
   redirect, is granted a transport for [url'], has a second draw and can build the headers,
   records that request second *)
Lemma redirect_request_recorded o urlA limit prepared stA rA stA' x tg st1 status hs x1 st2 url'
      x2 tg' st2' d0 d1 rand req :
  open_conn urlA prepared stA = (Ok (x, tg), st1) ->
  do_handshake urlA tg o x st1 = (Ok (HsRedirect status hs), x1, st2) ->
  alist_get S_LOCATION hs = Some url' ->
  1 <= limit ->
  open_conn url' None st2 = (Ok (x2, tg'), st2') ->
  cs_rand stA = d0 :: d1 :: rand ->
  hop_request url' tg' o d1 = Some req ->
  ws_connect urlA o limit prepared stA = (rA, stA') ->
  exists req0 more, cs_requests stA' = cs_requests stA ++ req0 :: req :: more.
Proof.
  intros E1 E2 Hloc Hlim E1' Hrand Hreq H.
  pose proof (open_conn_fields _ _ _ _ _ E1) as (_ & _ & _ & _ & _ & Er1 & Eq1).
  pose proof (do_handshake_step _ _ _ _ _ _ _ _ E2) as D. rewrite Er1, Eq1, Hrand in D.
  destruct D as [(_ & (e & He))|(draw & rand' & rq & Er & Er2 & Eh & Eq2 & Hh)]; [discriminate He|].
  injection Er as <- <-.
  pose proof (open_conn_target _ _ _ _ _ _ E1') as Etg'.
  pose proof (open_conn_fields _ _ _ _ _ E1') as (_ & _ & _ & _ & _ & Er1' & Eq1').
  unfold ws_connect in H. rewrite E1, E2 in H.
  destruct (Z.to_nat limit) as [|k] eqn:Ek; [lia|].
  cbn [redirect_loop] in H. rewrite Hloc in H.
  destruct url' as [|c l]; [vm_compute in Etg'; discriminate Etg'|].
  rewrite Etg', E1' in H.
  match type of H with context [do_handshake (c :: l) tg' o x2 ?s] =>
    destruct (do_handshake (c :: l) tg' o x2 s) as [[r1 x3] st3] eqn:E3 end.
  pose proof (do_handshake_records _ _ _ _ _ _ _ _ E3) as D. cbn [cs_rand cs_requests] in D.
  rewrite Er1', Er2, Hreq, Eq1' in D. destruct D as (_ & Eq3 & _).
  exists rq.
  destruct r1 as [resp'|e1].
  - destruct (redirect_loop k o resp' x3 st3) as [[r4 cur] st4] eqn:E4.
    destruct (redirect_loop_hops _ _ _ _ _ _ _ _ E4) as (urls & reqs & Eq4 & _).
    exists reqs.
    assert (Eq' : cs_requests stA' = cs_requests st4).
    { destruct r4 as [[resp'' x4]|e2]; [destruct resp'' as [s1 h1|s1 h1 sub1]|];
        unfold fail_with in H; inversion H; subst; reflexivity. }
    rewrite Eq', Eq4, Eq3, Eq2, <- !app_assoc. reflexivity.
  - unfold fail_with in H. inversion H; subst. cbn [cs_requests]. exists [].
    rewrite Eq3, Eq2, <- app_assoc. reflexivity.
Qed.

(* (3) with the hypotheses on the network instead of on the recorded requests: if both connections
   are granted a transport and the headers for [url'] can be built from the draw [d1], then A
   records a second request, B records a first request, and they are the same request. *)
Theorem single_hop_is_direct_granted :
  forall o urlA limitA preparedA stA rA stA' x tg st1 status hs x1 st2 url' x2 tg' st2' d0 d1 randA req
         limitB preparedB stB rB stB' xB tgB stB1 randB,
  open_conn urlA preparedA stA = (Ok (x, tg), st1) ->
  do_handshake urlA tg o x st1 = (Ok (HsRedirect status hs), x1, st2) ->
  alist_get S_LOCATION hs = Some url' ->
  1 <= limitA ->
  open_conn url' None st2 = (Ok (x2, tg'), st2') ->          (* the network grants the second hop *)
  cs_rand stA = d0 :: d1 :: randA ->
  hop_request url' tg' o d1 = Some req ->                    (* the headers can be built *)
  ws_connect urlA o limitA preparedA stA = (rA, stA') ->
  open_conn url' preparedB stB = (Ok (xB, tgB), stB1) ->     (* the direct connection is granted *)
  cs_rand stB = d1 :: randB ->
  ws_connect url' o limitB preparedB stB = (rB, stB') ->
  exists req0 moreA moreB,
    cs_requests stA' = cs_requests stA ++ req0 :: req :: moreA /\
    cs_requests stB' = cs_requests stB ++ req :: moreB.
Proof.
  intros o urlA limitA preparedA stA rA stA' x tg st1 status hs x1 st2 url' x2 tg' st2' d0 d1 randA req
         limitB preparedB stB rB stB' xB tgB stB1 randB
         E1 E2 Hloc Hlim E1' HrandA Hreq HA EB HrandB HB.
  destruct (redirect_request_recorded o urlA limitA preparedA stA rA stA' x tg st1 status hs x1 st2
              url' x2 tg' st2' d0 d1 randA req E1 E2 Hloc Hlim E1' HrandA Hreq HA)
    as (req0 & moreA & HqA).
  pose proof (open_conn_target _ _ _ _ _ _ E1') as P1.
  pose proof (open_conn_target _ _ _ _ _ _ EB) as P2.
  rewrite P1 in P2. inversion P2; subst tgB.
  destruct (direct_request_recorded url' o limitB preparedB stB rB stB' xB tg' stB1 d1 randB req
              EB HrandB Hreq HB) as (moreB & HqB).
  exists req0, moreA, moreB. split; assumption.
Qed.

(* ================================================================================== *)
(* Part 3 : a computed scenario                                                        *)
(* ================================================================================== *)

Definition rh_opts : hsopts :=
  {| o_host := None; o_origin := None; o_suppress_origin := false; o_subprotocols := [];
     o_cookie := None; o_header := HNone; o_connection := None |}.

Definition url_a : str := [119; 115; 58; 47; 47; 97; 46; 116; 101; 115; 116; 47].   (* "ws://a.test/" *)
Definition url_b : str :=                                                            (* "ws://b.test/next" *)
  [119; 115; 58; 47; 47; 98; 46; 116; 101; 115; 116; 47; 110; 101; 120; 116].
(* "HTTP/1.1 302 Found\r\nLocation: ws://b.test/next\r\n\r\n" *)
Definition redirect_to_b : bytes :=
  [72; 84; 84; 80; 47; 49; 46; 49; 32; 51; 48; 50; 32; 70; 111; 117; 110; 100; 13; 10;
   76; 111; 99; 97; 116; 105; 111; 110; 58; 32; 119; 115; 58; 47; 47; 98; 46; 116; 101; 115; 116;
   47; 110; 101; 120; 116; 13; 10; 13; 10].
Definition get_next : bytes := [71; 69; 84; 32; 47; 110; 101; 120; 116].            (* "GET /next" *)

(* a.test answers with the redirect; b.test accepts the connection and then closes it *)
Definition ex_redirected : res unit * cstate :=
  ws_connect url_a rh_opts 3 None
    (cs_init [repeat 1 16; repeat 2 16; repeat 3 16]
       [{| n_addrs := [AAccept]; n_script := [Data redirect_to_b] |};
        {| n_addrs := [AAccept]; n_script := [] |}]).
(* the direct connection to b.test with the draw the second hop used *)
Definition ex_direct : res unit * cstate :=
  ws_connect url_b rh_opts 3 None
    (cs_init [repeat 2 16] [{| n_addrs := [AAccept]; n_script := [] |}]).

Example one_redirect_two_requests :
  length (cs_requests (snd ex_redirected)) = 2%nat /\
  firstn 9 (fst (nth 1 (cs_requests (snd ex_redirected)) ([], []))) = get_next /\
  firstn 9 (fst (nth 0 (cs_requests (snd ex_redirected)) ([], []))) <> get_next /\
  (exists tg, parse_url url_b = Ok tg /\
     hop_request url_b tg rh_opts (repeat 2 16) = Some (nth 1 (cs_requests (snd ex_redirected)) ([], []))) /\
  cs_requests (snd ex_direct) = [nth 1 (cs_requests (snd ex_redirected)) ([], [])].
Proof.
  split; [vm_compute; reflexivity|]. split; [vm_compute; reflexivity|].
  split; [vm_compute; intros E; discriminate E|]. split.
  - eexists. split; [vm_compute; reflexivity|]. vm_compute. reflexivity.
  - vm_compute. reflexivity.
Qed.

Print Assumptions do_handshake_records.
Print Assumptions do_handshake_records_iff.
Print Assumptions redirect_hops_are_direct.
Print Assumptions redirect_hops_positions.
Print Assumptions single_hop_is_direct.
Print Assumptions single_hop_is_direct_granted.
Print Assumptions one_redirect_two_requests.
