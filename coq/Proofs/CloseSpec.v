(* Statement-level definitions for C08 (closing handshake / connection state machine). *)
From Coq Require Import ZArith List Bool.
From WS Require Import Base.Res Base.Bytes Gen.GenAbnf Gen.GenCore Model.Xport Model.Recv Model.Send
  Model.Conn Model.Script.
Import ListNotations.
Open Scope Z_scope.

(* a transport write whose first byte carries opcode 8 *)
Definition is_close_write (e : io) : bool :=
  match e with IWrite (b0 :: _) => (b0 mod 16 =? 8) | _ => false end.
Definition close_count (l : list io) : nat := length (filter is_close_write l).
Definition is_transport_close (e : io) : bool := match e with IClose => true | _ => false end.

(* histories in which the caller never writes a close frame explicitly (send_close, send(.., OPCODE_CLOSE)) *)
Definition implicit_only (o : apiop) : bool :=
  match o with
  | OpSendClose _ _ => false
  | OpSend op _ => negb (op mod 16 =? 8)
  | _ => true
  end.

(* the connection object invariant: no transport => not connected *)
Definition ws_inv (w : ws) : Prop := sock w = None -> connected w = false.

(* calls that must fail with the connection-closed exception on a closed object *)
Definition needs_transport (o : apiop) : bool :=
  match o with
  | OpRecvFrame | OpRecvDataFrame _ | OpRecv | OpPing _ | OpPong _ => true
  | OpSend op _ => existsb (Z.eqb op) OPCODES
  | _ => false
  end.
