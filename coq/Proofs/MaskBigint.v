(* The big-integer XOR masking routine (mask_bigint) equals the byte-wise cyclic xor. *)
From Coq Require Import ZArith List Bool Lia.
From WS Require Import Base.Bytes Base.GenPrelude Gen.GenAbnf Proofs.XorLemmas.
Import ListNotations.
Open Scope Z_scope.

Lemma digit_mod : forall x A, 0 <= x < 256 -> (x + 256 * A) mod 256 = x.
Proof.
  intros x A Hx. rewrite (Z.mul_comm 256 A), Z.mod_add by lia. apply Z.mod_small; lia.
Qed.

Lemma digit_div : forall x A, 0 <= x < 256 -> (x + 256 * A) / 256 = A.
Proof.
  intros x A Hx. rewrite (Z.mul_comm 256 A), Z.div_add by lia.
  rewrite Z.div_small by lia. lia.
Qed.

(* ---------- pointwise xor of two lists ---------- *)

Fixpoint xorl (a b : list Z) : list Z :=
  match a, b with
  | x :: a', y :: b' => Z.lxor x y :: xorl a' b'
  | _, _ => []
  end.

Lemma le_encode_xor : forall a b,
  bytes_ok a -> bytes_ok b -> length a = length b ->
  le_encode_nat (length a) (Z.lxor (le_decode a) (le_decode b)) = xorl a b.
Proof.
  induction a as [|x a IH]; intros b Ha Hb Hl; destruct b as [|y b]; try discriminate.
  - reflexivity.
  - inversion Ha as [|? ? Hx Ha']; subst. inversion Hb as [|? ? Hy Hb']; subst.
    unfold byte_ok in Hx, Hy.
    cbn [length le_encode_nat le_decode xorl].
    f_equal.
    + rewrite lxor_mod256, !digit_mod by assumption. reflexivity.
    + rewrite lxor_div256, !digit_div by assumption.
      apply IH; try assumption. cbn [length] in Hl. congruence.
Qed.
(* ---------- the mask list built by mask_bigint ---------- *)

Lemma repeat_list_nat_length : forall l q,
  length (repeat_list_nat l q) = (q * length l)%nat.
Proof.
  intros l q. induction q as [|q IH]; cbn [repeat_list_nat].
  - reflexivity.
  - rewrite app_length, IH. lia.
Qed.

Lemma repeat_list_nat_ok : forall l q, bytes_ok l -> bytes_ok (repeat_list_nat l q).
Proof.
  intros l q Hl. induction q as [|q IH]; cbn [repeat_list_nat].
  - constructor.
  - apply Forall_app. split; assumption.
Qed.

Lemma ztake_ok : forall l n, bytes_ok l -> bytes_ok (ztake n l).
Proof.
  intros l n Hl. revert n. induction Hl as [|x l Hx Hl IH]; intros n; cbn [ztake].
  - constructor.
  - destruct (n <=? 0); [constructor|]. constructor; [exact Hx | apply IH].
Qed.

Lemma ztake_length : forall (l : list Z) r,
  (r <= length l)%nat -> length (ztake (Z.of_nat r) l) = r.
Proof.
  induction l as [|x l IH]; intros r Hr; cbn [ztake length] in *.
  - lia.
  - destruct (Z.leb_spec (Z.of_nat r) 0) as [Hle|Hgt].
    + cbn [length]. lia.
    + destruct r as [|r]; [lia|].
      replace (Z.of_nat (S r) - 1) with (Z.of_nat r) by lia.
      cbn [length]. rewrite IH by lia. reflexivity.
Qed.

Lemma xorl_mask : forall k0 k1 k2 k3 q r data,
  (r < 4)%nat -> length data = (4 * q + r)%nat ->
  xorl data (repeat_list_nat [k0; k1; k2; k3] q ++ ztake (Z.of_nat r) [k0; k1; k2; k3])
  = xor_cyc [k0; k1; k2; k3] 0 data.
Proof.
  intros k0 k1 k2 k3. induction q as [|q IH]; intros r data Hr Hl.
  - cbn [repeat_list_nat app].
    destruct r as [|[|[|[|r]]]]; try lia;
      repeat (destruct data as [|? data]; try (cbn [length] in Hl; lia));
      reflexivity.
  - destruct data as [|d0 [|d1 [|d2 [|d3 rest]]]]; try (cbn [length] in Hl; lia).
    transitivity (Z.lxor d0 k0 :: Z.lxor d1 k1 :: Z.lxor d2 k2 :: Z.lxor d3 k3
                  :: xor_cyc [k0; k1; k2; k3] 4 rest); [|reflexivity].
    assert (E : xor_cyc [k0; k1; k2; k3] 4 rest = xor_cyc [k0; k1; k2; k3] 0 rest)
      by (apply (xor_cyc_period [k0; k1; k2; k3] rest 0); discriminate).
    cbn [repeat_list_nat app xorl].
    rewrite E, (IH r rest Hr) by (cbn [length] in Hl; lia).
    reflexivity.
Qed.

(* ---------- main result ---------- *)

Lemma mask_bigint_xor : forall key data,
  bytes_ok key -> length key = 4%nat -> bytes_ok data ->
  mask_bigint key data = xor_cyc key 0 data.
Proof.
  intros key data Hk Hlen Hd. unfold mask_bigint.
  destruct key as [|k0 [|k1 [|k2 [|k3 [|? ?]]]]]; try discriminate. clear Hlen.
  unfold le_encode, repeat_list, zlen.
  rewrite Nat2Z.id.
  pose proof (Z.div_mod (Z.of_nat (length data)) 4 ltac:(lia)) as Hdm.
  pose proof (Z.mod_pos_bound (Z.of_nat (length data)) 4 ltac:(lia)) as Hmb.
  pose proof (Z.div_pos (Z.of_nat (length data)) 4 ltac:(lia) ltac:(lia)) as Hdp.
  remember (Z.of_nat (length data) / 4) as zq eqn:Ezq.
  remember (Z.of_nat (length data) mod 4) as zr eqn:Ezr.
  clear Ezq Ezr.
  remember (Z.to_nat zq) as q eqn:Eq.
  remember (Z.to_nat zr) as r eqn:Er.
  assert (Hzr : zr = Z.of_nat r) by lia.
  assert (Hr4 : (r < 4)%nat) by lia.
  assert (Hn : length data = (4 * q + r)%nat) by lia.
  rewrite Hzr.
  rewrite <- (xorl_mask k0 k1 k2 k3 q r data Hr4 Hn).
  apply le_encode_xor.
  - exact Hd.
  - apply Forall_app. split.
    + apply repeat_list_nat_ok; exact Hk.
    + apply ztake_ok; exact Hk.
  - rewrite app_length, repeat_list_nat_length, ztake_length by (cbn [length]; lia).
    cbn [length]. lia.
Qed.

Print Assumptions mask_bigint_xor.
Print Assumptions xor_cyc_invol.
Print Assumptions xor_cyc_length.
Print Assumptions xor_cyc_ok.
Print Assumptions xor_cyc_app.
