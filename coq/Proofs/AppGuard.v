(* setSock as the code has it since b35ede7: a reconnection asked for after close() has cleared keep_running is refused.
   `set_sock_g` / `attempts_loop_g` / `run_forever_g` put the regenerated test (Gen.GenApp.app_reconnect_refused) in front of the
   model's set_sock; in the sequential model the refusal is never reached, so the guarded run IS the run all the app theorems are
   about.  (close() from another thread during the wait, where the refusal matters, is exercised in virtual time.) *)
From Coq Require Import ZArith List Bool Lia.
From WS Require Import Base.Res Base.Bytes Base.GenPrelude Gen.GenAbnf Gen.GenApp Model.Recv Model.App.
Import ListNotations.
Open Scope Z_scope.

Definition set_sock_g (cfg : appcfg) (a : attempt) (reconnecting : bool) (s : appst) : flow * appst :=
  if app_reconnect_refused reconnecting (keep_running s) then (Normal, s) else set_sock cfg a reconnecting s.

Fixpoint attempts_loop_g (cfg : appcfg) (env : list attempt) (reconnecting : bool) (s : appst) : flow * appst :=
  match env with
  | [] => (Normal, s)
  | a :: rest =>
    match set_sock_g cfg a reconnecting s with
    | (Kbd, s1) => (Kbd, s1)
    | (Normal, s1) =>
      if negb (reconnect cfg =? 0) && keep_running s1 then attempts_loop_g cfg rest true s1
      else (Normal, s1)
    end
  end.

Definition run_forever_g (cfg : appcfg) (env : list attempt) : bool * appst :=
  let s0 := st_init in
  let '(_, s1) := attempts_loop_g cfg env false s0 in
  let '(_, s2) := teardown cfg None s1 in
  (has_errored s2, s2).

Lemma set_sock_g_eq : forall cfg a r s,
  r = false \/ keep_running s = true -> set_sock_g cfg a r s = set_sock cfg a r s.
Proof.
  intros cfg a r s [Hr|Hk]; unfold set_sock_g, app_reconnect_refused.
  - subst r. reflexivity.
  - rewrite Hk. destruct r; reflexivity.
Qed.

Theorem attempts_loop_g_eq : forall cfg env r s,
  r = false \/ keep_running s = true -> attempts_loop_g cfg env r s = attempts_loop cfg env r s.
Proof.
  intros cfg env. induction env as [|a rest IH]; intros r s H; [reflexivity|].
  cbn [attempts_loop_g attempts_loop]. rewrite (set_sock_g_eq cfg a r s H).
  destruct (set_sock cfg a r s) as [[|] s1]; [|reflexivity].
  destruct (negb (reconnect cfg =? 0)); cbn [andb]; [|reflexivity].
  destruct (keep_running s1) eqn:Hk; [|reflexivity].
  apply IH. right. exact Hk.
Qed.

Theorem run_forever_g_eq : forall cfg env, run_forever_g cfg env = run_forever cfg env.
Proof.
  intros cfg env. unfold run_forever_g, run_forever.
  rewrite (attempts_loop_g_eq cfg env false st_init (or_introl eq_refl)). reflexivity.
Qed.
Print Assumptions run_forever_g_eq.

(* the refusal itself: asked to reconnect after close(), setSock does nothing at all (no connection attempt, no callback) *)
Theorem set_sock_g_refuses : forall cfg a s, keep_running s = false -> set_sock_g cfg a true s = (Normal, s).
Proof. intros cfg a s Hk. unfold set_sock_g, app_reconnect_refused. rewrite Hk. reflexivity. Qed.
Print Assumptions set_sock_g_refuses.
