(* xor_rot: a key-rotating cyclic xor, equal to xor_cyc key 0 but with no
   unary Nat.modulo on a growing index (fast after extraction). *)
From Coq Require Import ZArith List Bool Lia Arith.
Import ListNotations.
From WS Require Import Base.Bytes Proofs.XorLemmas.

Fixpoint xor_rot (key : bytes) (d : bytes) : bytes :=
  match d with
  | [] => []
  | x :: ds =>
    match key with
    | [] => x :: ds
    | k :: ks => Z.lxor x k :: xor_rot (ks ++ [k]) ds
    end
  end.

Lemma skipn_nth_cons : forall (l : list Z) i,
  (i < length l)%nat -> skipn i l = nth i l 0%Z :: skipn (S i) l.
Proof.
  induction l as [|a l IH]; intros i Hi; cbn [length] in Hi.
  - lia.
  - destruct i as [|i].
    + reflexivity.
    + cbn [skipn nth]. rewrite (IH i) by lia. reflexivity.
Qed.

Lemma firstn_S_nth : forall (l : list Z) i,
  (i < length l)%nat -> firstn (S i) l = firstn i l ++ [nth i l 0%Z].
Proof.
  induction l as [|a l IH]; intros i Hi; cbn [length] in Hi.
  - lia.
  - destruct i as [|i].
    + reflexivity.
    + change (firstn (S (S i)) (a :: l)) with (a :: firstn (S i) l).
      rewrite (IH i) by lia. reflexivity.
Qed.

Lemma xor_cyc_nil_key : forall d i, xor_cyc [] i d = d.
Proof.
  induction d as [|x d IH]; intros i; cbn [xor_cyc].
  - reflexivity.
  - rewrite IH. destruct (Nat.modulo i (length (@nil Z))); cbn [nth];
      rewrite Z.lxor_0_r; reflexivity.
Qed.

Lemma xor_rot_nil_key : forall d, xor_rot [] d = d.
Proof. intros [|x d]; reflexivity. Qed.

Lemma xor_rot_cyc_gen : forall key d i,
  (i < length key)%nat ->
  xor_rot (skipn i key ++ firstn i key) d = xor_cyc key i d.
Proof.
  intros key d. induction d as [|x ds IH]; intros i Hi.
  - reflexivity.
  - cbn [xor_cyc]. rewrite (Nat.mod_small i (length key)) by exact Hi.
    rewrite (skipn_nth_cons key i Hi).
    cbn [app xor_rot]. f_equal.
    rewrite <- app_assoc, <- (firstn_S_nth key i Hi).
    destruct (Nat.eq_dec (S i) (length key)) as [He | Hne].
    + rewrite He, skipn_all, firstn_all. cbn [app].
      assert (Hk : key <> []) by (intros ->; cbn [length] in Hi; lia).
      pose proof (xor_cyc_period key ds 0%nat Hk) as Hp.
      cbn [Nat.add] in Hp. rewrite Hp.
      rewrite <- (IH 0%nat) by lia.
      cbn [skipn firstn]. rewrite app_nil_r. reflexivity.
    + apply IH. lia.
Qed.

Theorem xor_rot_cyc : forall key d, xor_rot key d = xor_cyc key 0 d.
Proof.
  intros key d. destruct key as [|k ks].
  - rewrite xor_rot_nil_key, xor_cyc_nil_key. reflexivity.
  - rewrite <- (xor_rot_cyc_gen (k :: ks) d 0%nat) by (cbn [length]; lia).
    cbn [skipn firstn]. rewrite app_nil_r. reflexivity.
Qed.

Print Assumptions xor_rot_cyc.
