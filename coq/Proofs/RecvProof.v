(* Receive side, byte level: repeated frame_buffer.recv_frame over any chunking of the byte
   stream, with timeouts injected anywhere, delivers exactly what the RFC decoder delivers
   on the concatenated bytes. *)
From Coq Require Import ZArith List Bool Lia ZifyBool.
From WS Require Import Base.Res Base.Bytes Base.GenPrelude Base.Sweep Spec.Frame Spec.Stream
  Gen.GenAbnf Model.Xport Model.Recv Proofs.BytesLemmas Proofs.XorLemmas Proofs.MaskBigint
  Proofs.FrameCodec Proofs.RecvSpec.
Import ListNotations.
Open Scope Z_scope.
Ltac Zify.zify_post_hook ::= Z.div_mod_to_equations.

(* ================================================================== *)
(* 1. Everything that is used about the generated definitions          *)
(* ================================================================== *)

Lemma g_shortage n buf : strict_shortage n buf = n - zlen buf.
Proof. reflexivity. Qed.
Lemma g_continue sh : strict_continue sh = (sh >? 0).
Proof. reflexivity. Qed.
Lemma g_request sh : strict_request sh = Z.min 16384 sh.
Proof. reflexivity. Qed.
Lemma g_step sh buf bs : strict_step sh buf bs = (sh - zlen bs, buf ++ bs).
Proof. reflexivity. Qed.
Lemma g_finish n sh buf :
  strict_finish n sh buf = if sh =? 0 then (buf, []) else (ztake n buf, zdrop n buf).
Proof. unfold strict_finish. destruct (sh =? 0); rewrite ?app_nil_r; reflexivity. Qed.
Lemma g_header_need : header_need = 2.
Proof. reflexivity. Qed.

Lemma land_127 lb : 0 <= lb < 128 -> Z.land lb 127 = lb.
Proof.
  intro H. change 127 with (Z.ones 7). rewrite Z.land_ones by lia.
  change (2 ^ 7) with 128. lia.
Qed.

Definition len_need (lb : Z) : Z := if lb =? 126 then 2 else if lb =? 127 then 8 else 0.

Lemma g_length_need f r1 r2 r3 op m lb : 0 <= lb < 128 ->
  length_need (f, r1, r2, r3, op, m, lb) = len_need lb.
Proof. intro H. unfold length_need, len_need, tup7_6. rewrite land_127 by exact H. reflexivity. Qed.

Lemma g_length_decode f r1 r2 r3 op m lb v : 0 <= lb < 128 ->
  length_decode (f, r1, r2, r3, op, m, lb) v =
  if lb =? 126 then be_decode v else if lb =? 127 then be_decode v else lb.
Proof. intro H. unfold length_decode, tup7_6. rewrite land_127 by exact H. reflexivity. Qed.

Lemma g_mask_need m : mask_need m = if m =? 0 then 0 else 4.
Proof. unfold mask_need. destruct (m =? 0); reflexivity. Qed.

Lemma g_abnf_mask k p : abnf_mask k p = mask_bigint k p.
Proof. reflexivity. Qed.

Lemma g_parse_header_raw b0 b1 :
  parse_header [b0; b1] =
  (Z.land (Z.shiftr b0 7) 1, Z.land (Z.shiftr b0 6) 1, Z.land (Z.shiftr b0 5) 1,
   Z.land (Z.shiftr b0 4) 1, Z.land b0 15, Z.land (Z.shiftr b1 7) 1, Z.land b1 127).
Proof. reflexivity. Qed.

Definition bits_check (b : Z) : bool :=
  (Z.land (Z.shiftr b 7) 1 =? b / 128) && (Z.land (Z.shiftr b 6) 1 =? (b / 64) mod 2) &&
  (Z.land (Z.shiftr b 5) 1 =? (b / 32) mod 2) && (Z.land (Z.shiftr b 4) 1 =? (b / 16) mod 2) &&
  (Z.land b 15 =? b mod 16) && (Z.land b 127 =? b mod 128).

Lemma bits_sweep : forall b, 0 <= b < 256 -> bits_check b = true.
Proof. intros b H. apply (forall_range bits_check 256 0); [vm_compute; reflexivity|]. lia. Qed.

Lemma g_parse_header b0 b1 : byte_ok b0 -> byte_ok b1 ->
  parse_header [b0; b1] =
  (b0 / 128, (b0 / 64) mod 2, (b0 / 32) mod 2, (b0 / 16) mod 2, b0 mod 16, b1 / 128, b1 mod 128).
Proof.
  intros H0 H1. rewrite g_parse_header_raw.
  pose proof (bits_sweep b0 H0) as S0. pose proof (bits_sweep b1 H1) as S1.
  unfold bits_check in S0, S1.
  repeat rewrite andb_true_iff in S0. repeat rewrite andb_true_iff in S1.
  repeat rewrite Z.eqb_eq in S0. repeat rewrite Z.eqb_eq in S1.
  destruct S0 as (((((A1 & A2) & A3) & A4) & A5) & _).
  destruct S1 as (((((B1 & _) & _) & _) & _) & B6).
  rewrite A1, A2, A3, A4, A5, B1, B6. reflexivity.
Qed.

Lemma g_validate_res fin r1 r2 r3 op d s :
  abnf_validate fin r1 r2 r3 op d s = Ok tt \/ abnf_validate fin r1 r2 r3 op d s = Raise Protocol.
Proof.
  unfold abnf_validate. cbv zeta.
  repeat match goal with |- context [if ?c then _ else _] => destruct c end; auto.
Qed.

(* ================================================================== *)
(* 2. One transport read                                               *)
(* ================================================================== *)

Definition msr (l : list ev) : nat := (length (flatten l) + length l)%nat.

Lemma fuel_for_msr l : fuel_for l = S (msr l).
Proof. reflexivity. Qed.

(* what a stage may do to the transport: the script stays well formed and does not grow *)
Definition xle (x x' : xport) : Prop :=
  script_ok (inbox x') = true /\ (msr (inbox x') <= msr (inbox x))%nat /\
  (length (inbox x') <= length (inbox x))%nat /\
  (no_reset (inbox x) = true -> no_reset (inbox x') = true).

Lemma xle_refl x : script_ok (inbox x) = true -> xle x x.
Proof. intro H. unfold xle. auto. Qed.
Lemma xle_trans x y z : xle x y -> xle y z -> xle x z.
Proof. unfold xle. intros (A & B & C & D) (A' & B' & C' & D'). repeat split; auto; lia. Qed.

Lemma sock_recv_log k x r x' : sock_recv k x = (r, x') -> iolog x' = iolog x ++ [IRead k].
Proof.
  unfold sock_recv. intro H.
  destruct (inbox x) as [|[bs| |] l];
    [|destruct (zlen bs =? 0); [|destruct (zlen bs <=? k)]| |]; inversion H; reflexivity.
Qed.

Lemma sock_recv_spec k x r x' :
  0 < k -> script_ok (inbox x) = true -> sock_recv k x = (r, x') ->
  match r with
  | Ok bs => 0 < zlen bs <= k /\ bs ++ flatten (inbox x') = flatten (inbox x) /\
             (msr (inbox x') < msr (inbox x))%nat /\ xle x x'
  | Raise TimedOut => flatten (inbox x') = flatten (inbox x) /\
             (length (inbox x') < length (inbox x))%nat /\ xle x x'
  | Raise ConnClosed => inbox x = [] /\ xle x x'
  | Raise (Transport _) => no_reset (inbox x) = false
  | Raise _ => False
  end.
Proof.
  unfold sock_recv, xle, msr. intros Hk Hs H.
  destruct (inbox x) as [|[bs| |] l] eqn:Ex.
  - inversion H; subst. cbn. auto 10.
  - cbn [script_ok] in Hs. apply andb_true_iff in Hs as [Hne Hs].
    destruct (zlen bs =? 0) eqn:E0; [discriminate|].
    pose proof (zlen_nonneg bs) as Hnn.
    destruct (zlen bs <=? k) eqn:E1; inversion H; subst; cbn [inbox flatten script_ok no_reset length].
    + rewrite app_length. repeat split; auto; lia.
    + assert (Hk' : 0 <= k <= zlen bs) by lia.
      pose proof (ztake_zlen k bs Hk') as Ht. pose proof (zdrop_zlen k bs Hk') as Hd.
      rewrite app_assoc, ztake_zdrop. rewrite !app_length.
      assert (zlen (zdrop k bs) =? 0 = false) as -> by lia. cbn [negb andb].
      unfold zlen in *. repeat split; auto; lia.
  - inversion H; subst. cbn [inbox flatten script_ok no_reset length] in *. repeat split; auto; lia.
  - inversion H; subst. cbn [inbox flatten script_ok no_reset length] in *. auto.
Qed.

(* ================================================================== *)
(* 3. recv_strict                                                      *)
(* ================================================================== *)

Lemma strict_loop_eq fuel sh buf x :
  strict_loop fuel sh buf x =
  if sh >? 0 then
    match fuel with
    | O => (Raise OutOfFuel, buf, x)
    | S k => match sock_recv (Z.min 16384 sh) x with
             | (Ok bs, x') => strict_loop k (sh - zlen bs) (buf ++ bs) x'
             | (Raise e, x') => (Raise e, buf, x')
             end
    end
  else (Ok sh, buf, x).
Proof.
  destruct fuel; cbn [strict_loop]; rewrite g_continue; [reflexivity|].
  rewrite g_request. destruct (sh >? 0); [|reflexivity].
  destruct (sock_recv (Z.min 16384 sh) x) as [[bs|e] x']; [|reflexivity].
  rewrite g_step. reflexivity.
Qed.

Lemma strict_loop_log : forall fuel sh buf x r buf' x',
  strict_loop fuel sh buf x = (r, buf', x') ->
  forall n, In (IRead n) (iolog x') -> In (IRead n) (iolog x) \/ n <= 16384.
Proof.
  induction fuel as [|k IH]; intros sh buf x r buf' x' H n Hin; rewrite strict_loop_eq in H.
  - destruct (sh >? 0); inversion H; subst; auto.
  - destruct (sh >? 0); [|inversion H; subst; auto].
    destruct (sock_recv (Z.min 16384 sh) x) as [[bs|e] x0] eqn:E.
    + apply sock_recv_log in E. specialize (IH _ _ _ _ _ _ H n Hin).
      destruct IH as [IH|IH]; [|auto]. rewrite E in IH. apply in_app_or in IH as [IH|IH]; [auto|].
      destruct IH as [IH|[]]. inversion IH; subst. right. lia.
    + apply sock_recv_log in E. inversion H; subst. rewrite E in Hin.
      apply in_app_or in Hin as [Hin|Hin]; [auto|].
      destruct Hin as [Hin|[]]. inversion Hin; subst. right. lia.
Qed.

Lemma strict_loop_spec : forall fuel sh buf x r buf' x',
  script_ok (inbox x) = true -> (msr (inbox x) < fuel)%nat ->
  strict_loop fuel sh buf x = (r, buf', x') ->
  exists got, buf' = buf ++ got /\
  match r with
  | Ok sh' => xle x x' /\ sh' = sh - zlen got /\ got ++ flatten (inbox x') = flatten (inbox x) /\
              (0 < sh -> sh' = 0) /\ (sh <= 0 -> got = [])
  | Raise TimedOut => xle x x' /\ got ++ flatten (inbox x') = flatten (inbox x) /\ zlen got < sh /\
              (length (inbox x') < length (inbox x))%nat
  | Raise ConnClosed => xle x x' /\ got = flatten (inbox x) /\ zlen got < sh
  | Raise (Transport _) => no_reset (inbox x) = false
  | Raise _ => False
  end.
Proof.
  induction fuel as [|k IH]; intros sh buf x r buf' x' Hs Hf H; [lia|].
  rewrite strict_loop_eq in H. destruct (sh >? 0) eqn:Esh.
  2:{ inversion H; subst. exists []. rewrite app_nil_r, zlen_nil.
      repeat split; auto; try lia. }
  destruct (sock_recv (Z.min 16384 sh) x) as [[bs|e] x0] eqn:E;
    apply sock_recv_spec in E; try lia; try assumption.
  - destruct E as (Hbs & Hfl & Hm & Hx).
    assert (Hs0 : script_ok (inbox x0) = true) by apply Hx.
    destruct (IH _ _ _ _ _ _ Hs0 ltac:(lia) H) as (got & -> & Hr).
    exists (bs ++ got). split; [now rewrite app_assoc|]. rewrite zlen_app.
    destruct r as [sh'|e].
    + destruct Hr as (Hx' & -> & Hfl' & Hp & Hn). rewrite <- app_assoc, Hfl', Hfl.
      split; [eapply xle_trans; eassumption|].
      repeat split; auto; try lia.
      intros _. destruct (Z_lt_le_dec 0 (sh - zlen bs)) as [Hlt|Hle]; [rewrite (Hp Hlt) in *; lia|].
      rewrite (Hn Hle), zlen_nil. lia.
    + destruct e; try contradiction.
      * destruct Hr as (Hx' & -> & Hlt). rewrite Hfl.
        split; [eapply xle_trans; eassumption|]. split; [reflexivity|lia].
      * destruct Hr as (Hx' & Hfl' & Hlt & Hlen). rewrite <- app_assoc, Hfl', Hfl.
        split; [eapply xle_trans; eassumption|].
        destruct Hx as (_ & _ & Hl & _). repeat split; auto; lia.
      * destruct Hx as (_ & _ & _ & Hnr). destruct (no_reset (inbox x)); [|reflexivity].
        rewrite Hnr in Hr by reflexivity. discriminate.
  - inversion H; subst. destruct e; try contradiction; exists []; rewrite app_nil_r, ?zlen_nil;
      (split; [reflexivity|]).
    + destruct E as (E & Hx). rewrite E. cbn [flatten]. split; [exact Hx|]. split; [reflexivity|lia].
    + destruct E as (Hfl & Hlen & Hx). cbn [app]. split; [exact Hx|]. repeat split; auto; lia.
    + auto.
Qed.

Lemma recv_strict_log fuel n buf x r buf' x' :
  recv_strict fuel n buf x = (r, buf', x') ->
  forall k, In (IRead k) (iolog x') -> In (IRead k) (iolog x) \/ k <= 16384.
Proof.
  unfold recv_strict. intro H.
  destruct (strict_loop fuel (strict_shortage n buf) buf x) as [[[sh|e] b0] x0] eqn:E.
  - destruct (strict_finish n sh b0). inversion H; subst. eapply strict_loop_log; eassumption.
  - inversion H; subst. eapply strict_loop_log; eassumption.
Qed.

(* no hypothesis on the buffer: fuel and the transport order *)
Lemma recv_strict_fuel fuel n buf x r buf' x' :
  script_ok (inbox x) = true -> (msr (inbox x) < fuel)%nat ->
  recv_strict fuel n buf x = (r, buf', x') ->
  r <> Raise OutOfFuel /\ (forall bs, r = Ok bs -> xle x x').
Proof.
  unfold recv_strict. intros Hs Hf H.
  destruct (strict_loop fuel (strict_shortage n buf) buf x) as [[[sh|e] b0] x0] eqn:E;
    apply strict_loop_spec in E; try assumption; destruct E as (got & _ & E).
  - destruct (strict_finish n sh b0). inversion H; subst. split; [discriminate|]. intros; apply E.
  - inversion H; subst. split; [|discriminate]. intro X; inversion X; subst. exact E.
Qed.

Lemma recv_strict_spec fuel n buf x r buf' x' :
  script_ok (inbox x) = true -> (msr (inbox x) < fuel)%nat ->
  buf = [] \/ zlen buf < n ->
  recv_strict fuel n buf x = (r, buf', x') ->
  match r with
  | Ok bs => xle x x' /\ buf' = [] /\ bs ++ flatten (inbox x') = buf ++ flatten (inbox x) /\
             zlen bs = Z.max 0 n
  | Raise TimedOut => xle x x' /\ buf' ++ flatten (inbox x') = buf ++ flatten (inbox x) /\
             zlen buf' < n /\ (length (inbox x') < length (inbox x))%nat
  | Raise ConnClosed => buf' = buf ++ flatten (inbox x) /\ zlen buf' < n
  | Raise (Transport _) => no_reset (inbox x) = false
  | Raise _ => False
  end.
Proof.
  unfold recv_strict. intros Hs Hf Hb H. rewrite g_shortage in H.
  destruct (strict_loop fuel (n - zlen buf) buf x) as [[[sh|e] b0] x0] eqn:E;
    apply strict_loop_spec in E; try assumption; destruct E as (got & -> & E).
  - rewrite g_finish in H. destruct E as (Hx & -> & Hfl & Hp & Hn).
    pose proof (zlen_nonneg buf) as Hb0. pose proof (zlen_nonneg got) as Hg0.
    destruct (Z_lt_le_dec 0 (n - zlen buf)) as [Hlt|Hle].
    + specialize (Hp Hlt). rewrite Hp in H. cbn [Z.eqb] in H. inversion H; subst.
      rewrite <- app_assoc, Hfl, zlen_app. repeat split; auto; try apply Hx. lia.
    + specialize (Hn Hle). subst got. destruct Hb as [->|Hb]; [|lia].
      rewrite zlen_nil in *. cbn [app] in *.
      destruct (n - 0 - 0 =? 0) eqn:E0; inversion H; subst; cbn [ztake zdrop app] in *;
        rewrite ?zlen_nil; repeat split; auto; try apply Hx; lia.
  - inversion H; subst. destruct e; try contradiction.
    + destruct E as (_ & -> & Hlt). rewrite zlen_app. split; [reflexivity|lia].
    + destruct E as (Hx & Hfl & Hlt & Hlen). rewrite <- app_assoc, Hfl, zlen_app.
      split; [exact Hx|]. repeat split; auto; lia.
    + exact E.
Qed.

(* ================================================================== *)
(* 4. recv_frame, one stage at a time                                  *)
(* ================================================================== *)

Notation FB := Build_fbuf.

Section Stages.
Variable u : bytes -> bytes -> bytes.
Variables (fuel : nat) (skip : bool).

Lemma st0_fail l mk buf x e buf' x' :
  recv_strict fuel header_need buf x = (Raise e, buf', x') ->
  recv_frame_with u fuel skip (FB None l mk buf) x = (Raise e, FB None l mk buf', x').
Proof. intro H. unfold recv_frame_with. cbn [f_hdr f_len f_mask f_buf]. rewrite H. reflexivity. Qed.

Lemma st0_adv l mk buf x b buf' x' :
  recv_strict fuel header_need buf x = (Ok b, buf', x') ->
  recv_frame_with u fuel skip (FB None l mk buf) x =
  recv_frame_with u fuel skip (FB (Some (parse_header b)) l mk buf') x'.
Proof. intro H. unfold recv_frame_with. cbn [f_hdr f_len f_mask f_buf]. rewrite H. reflexivity. Qed.

Variables fin r1 r2 r3 op m lb : Z.
Let h : hdr7 := (fin, r1, r2, r3, op, m, lb).

Lemma st1_skip mk buf x :
  length_need h =? 0 = true ->
  recv_frame_with u fuel skip (FB (Some h) None mk buf) x =
  recv_frame_with u fuel skip (FB (Some h) (Some (length_decode h [])) mk buf) x.
Proof.
  intro H. unfold recv_frame_with. cbn [f_hdr f_len f_mask f_buf]. subst h. cbv iota beta.
  rewrite H. reflexivity.
Qed.

Lemma st1_fail mk buf x e buf' x' :
  length_need h =? 0 = false ->
  recv_strict fuel (length_need h) buf x = (Raise e, buf', x') ->
  recv_frame_with u fuel skip (FB (Some h) None mk buf) x = (Raise e, FB (Some h) None mk buf', x').
Proof.
  intros H0 H. unfold recv_frame_with. cbn [f_hdr f_len f_mask f_buf]. subst h. cbv iota beta.
  rewrite H0, H. reflexivity.
Qed.

Lemma st1_adv mk buf x v buf' x' :
  length_need h =? 0 = false ->
  recv_strict fuel (length_need h) buf x = (Ok v, buf', x') ->
  recv_frame_with u fuel skip (FB (Some h) None mk buf) x =
  recv_frame_with u fuel skip (FB (Some h) (Some (length_decode h v)) mk buf') x'.
Proof.
  intros H0 H. unfold recv_frame_with. cbn [f_hdr f_len f_mask f_buf]. subst h. cbv iota beta.
  rewrite H0, H. reflexivity.
Qed.

Lemma st2_skip n buf x :
  mask_need m =? 0 = true ->
  recv_frame_with u fuel skip (FB (Some h) (Some n) None buf) x =
  recv_frame_with u fuel skip (FB (Some h) (Some n) (Some []) buf) x.
Proof.
  intro H. unfold recv_frame_with. cbn [f_hdr f_len f_mask f_buf]. subst h. cbv iota beta.
  rewrite H. reflexivity.
Qed.

Lemma st2_fail n buf x e buf' x' :
  mask_need m =? 0 = false ->
  recv_strict fuel (mask_need m) buf x = (Raise e, buf', x') ->
  recv_frame_with u fuel skip (FB (Some h) (Some n) None buf) x =
  (Raise e, FB (Some h) (Some n) None buf', x').
Proof.
  intros H0 H. unfold recv_frame_with. cbn [f_hdr f_len f_mask f_buf]. subst h. cbv iota beta.
  rewrite H0, H. reflexivity.
Qed.

Lemma st2_adv n buf x k buf' x' :
  mask_need m =? 0 = false ->
  recv_strict fuel (mask_need m) buf x = (Ok k, buf', x') ->
  recv_frame_with u fuel skip (FB (Some h) (Some n) None buf) x =
  recv_frame_with u fuel skip (FB (Some h) (Some n) (Some k) buf') x'.
Proof.
  intros H0 H. unfold recv_frame_with. cbn [f_hdr f_len f_mask f_buf]. subst h. cbv iota beta.
  rewrite H0, H. reflexivity.
Qed.

Lemma st3_fail n k buf x e buf' x' :
  recv_strict fuel n buf x = (Raise e, buf', x') ->
  recv_frame_with u fuel skip (FB (Some h) (Some n) (Some k) buf) x =
  (Raise e, FB (Some h) (Some n) (Some k) buf', x').
Proof.
  intros H. unfold recv_frame_with. cbn [f_hdr f_len f_mask f_buf]. subst h. cbv iota beta.
  rewrite H. reflexivity.
Qed.

Lemma st3_done n k buf x p buf' x' :
  recv_strict fuel n buf x = (Ok p, buf', x') ->
  recv_frame_with u fuel skip (FB (Some h) (Some n) (Some k) buf) x =
  let payload := if negb (m =? 0) then u k p else p in
  match abnf_validate fin r1 r2 r3 op payload skip with
  | Raise e => (Raise e, FB None None None buf', x')
  | Ok _ => (Ok {| a_fin := fin; a_rsv1 := r1; a_rsv2 := r2; a_rsv3 := r3; a_opcode := op;
                   a_mask := m; a_data := payload |}, FB None None None buf', x')
  end.
Proof.
  intros H. unfold recv_frame_with. cbn [f_hdr f_len f_mask f_buf]. subst h. cbv iota beta.
  rewrite H. reflexivity.
Qed.

End Stages.

(* a proof principle for properties of the transport that do not depend on the buffer *)
Lemma recv_frame_generic (Q : xport -> res abnf * fbuf * xport -> Prop) fuel skip :
  (forall n buf x e buf' x' fb'',
     recv_strict fuel n buf x = (Raise e, buf', x') -> Q x (Raise e, fb'', x')) ->
  (forall n buf x b buf' x' out,
     recv_strict fuel n buf x = (Ok b, buf', x') -> Q x' out -> Q x out) ->
  (forall n buf x p buf' x' fb'' r,
     recv_strict fuel n buf x = (Ok p, buf', x') ->
     (exists a, r = Ok a) \/ r = Raise Protocol -> Q x (r, fb'', x')) ->
  forall fb x, Q x (recv_frame fuel skip fb x).
Proof.
  intros Hfail Hadv Hfin. unfold recv_frame.
  assert (S3 : forall h n k buf x,
    Q x (recv_frame_with abnf_mask fuel skip (FB (Some h) (Some n) (Some k) buf) x)).
  { intros [[[[[[fin r1] r2] r3] op] m] lb] n k buf x.
    destruct (recv_strict fuel n buf x) as [[[p|e] b'] x'] eqn:E.
    - rewrite (st3_done _ _ _ _ _ _ _ _ _ _ _ _ _ _ _ _ _ E). cbv zeta.
      match goal with |- context [abnf_validate ?a ?b ?c ?d ?e ?f ?g] =>
        destruct (g_validate_res a b c d e f g) as [V|V]; rewrite V end; eapply Hfin; eauto.
    - rewrite (st3_fail _ _ _ _ _ _ _ _ _ _ _ _ _ _ _ _ _ E). eapply Hfail; eauto. }
  assert (S2 : forall h n mk buf x,
    Q x (recv_frame_with abnf_mask fuel skip (FB (Some h) (Some n) mk buf) x)).
  { intros h n [k|] buf x; [apply S3|]. destruct h as [[[[[[fin r1] r2] r3] op] m] lb].
    destruct (mask_need m =? 0) eqn:E0.
    - rewrite st2_skip by exact E0. apply S3.
    - destruct (recv_strict fuel (mask_need m) buf x) as [[[k|e] b'] x'] eqn:E.
      + rewrite (st2_adv _ _ _ _ _ _ _ _ _ _ _ _ _ _ _ _ E0 E). eapply Hadv; [exact E|apply S3].
      + rewrite (st2_fail _ _ _ _ _ _ _ _ _ _ _ _ _ _ _ _ E0 E). eapply Hfail; eauto. }
  assert (S1 : forall h ol mk buf x,
    Q x (recv_frame_with abnf_mask fuel skip (FB (Some h) ol mk buf) x)).
  { intros h [n|] mk buf x; [apply S2|]. destruct h as [[[[[[fin r1] r2] r3] op] m] lb].
    destruct (length_need (fin, r1, r2, r3, op, m, lb) =? 0) eqn:E0.
    - rewrite st1_skip by exact E0. apply S2.
    - destruct (recv_strict fuel (length_need (fin, r1, r2, r3, op, m, lb)) buf x)
        as [[[v|e] b'] x'] eqn:E.
      + rewrite (st1_adv _ _ _ _ _ _ _ _ _ _ _ _ _ _ _ _ E0 E). eapply Hadv; [exact E|apply S2].
      + rewrite (st1_fail _ _ _ _ _ _ _ _ _ _ _ _ _ _ _ _ E0 E). eapply Hfail; eauto. }
  intros [[h|] ol mk buf] x; [apply S1|].
  destruct (recv_strict fuel header_need buf x) as [[[b|e] b'] x'] eqn:E.
  - rewrite (st0_adv _ _ _ _ _ _ _ _ _ _ E). eapply Hadv; [exact E|apply S1].
  - rewrite (st0_fail _ _ _ _ _ _ _ _ _ _ E). eapply Hfail; eauto.
Qed.

Theorem read_sizes_bounded : forall fuel skip fb x r fb' x',
  recv_frame fuel skip fb x = (r, fb', x') ->
  forall n, In (IRead n) (iolog x') -> In (IRead n) (iolog x) \/ n <= 16384.
Proof.
  intros fuel skip fb x r fb' x' H.
  pose proof (recv_frame_generic
    (fun x out => forall n, In (IRead n) (iolog (snd out)) -> In (IRead n) (iolog x) \/ n <= 16384)
    fuel skip) as G.
  cbv beta in G. specialize (G
    ltac:(intros; cbn [snd] in *; eapply recv_strict_log; eauto)
    ltac:(intros ? ? ? ? ? ? ? E IH k Hin; destruct (IH k Hin) as [Hin'|]; [|auto];
          eapply recv_strict_log; eauto)
    ltac:(intros; cbn [snd] in *; eapply recv_strict_log; eauto)
    fb x).
  rewrite H in G. exact G.
Qed.

Theorem recv_frame_never_out_of_fuel : forall skip fb x r fb' x',
  recv_frame (fuel_for (inbox x)) skip fb x = (r, fb', x') ->
  script_ok (inbox x) = true -> r <> Raise OutOfFuel.
Proof.
  intros skip fb x r fb' x' H Hs.
  pose proof (recv_frame_generic
    (fun y out => script_ok (inbox y) = true -> (msr (inbox y) < fuel_for (inbox x))%nat ->
                  fst (fst out) <> Raise OutOfFuel)
    (fuel_for (inbox x)) skip) as G.
  cbv beta in G. specialize (G
    ltac:(intros ? ? ? ? ? ? ? E Hs' Hm; cbn [fst]; intro X; inversion X; subst;
          destruct (recv_strict_fuel _ _ _ _ _ _ _ Hs' Hm E) as [N _]; now apply N)
    ltac:(intros ? ? ? ? ? ? ? E IH Hs' Hm;
          destruct (recv_strict_fuel _ _ _ _ _ _ _ Hs' Hm E) as [_ Hx];
          destruct (Hx _ eq_refl) as (A & B & _); apply IH; [exact A|lia])
    ltac:(intros ? ? ? ? ? ? ? ? E [[a ->]| ->] Hs' Hm; cbn [fst]; discriminate)
    fb x Hs).
  rewrite H, fuel_for_msr in G. cbn [fst] in G. apply G. lia.
Qed.

(* ================================================================== *)
(* 5. The RFC decoder, one stage at a time                             *)
(* ================================================================== *)

Definition lenr_of (l7 : Z) (r : bytes) : option (Z * bytes * bool) :=
  if l7 <? 126 then Some (l7, r, true)
  else if l7 =? 126 then
    match zsplit 2 r with
    | Some (e, r') => Some (be_decode e, r', 126 <=? be_decode e)
    | None => None
    end
  else
    match zsplit 8 r with
    | Some (e, r') => Some (be_decode e, r', (65536 <=? be_decode e) && (be_decode e <? 2 ^ 63))
    | None => None
    end.

Definition keyr_of (masked : Z) (r1 : bytes) : option (option bytes * bytes) :=
  if masked =? 1 then
    match zsplit 4 r1 with Some (k, r2) => Some (Some k, r2) | None => None end
  else Some (None, r1).

Definition dbody2 (h : hdr) (masked n : Z) (r1 : bytes) (shortest : bool) : dec :=
  match keyr_of masked r1 with
  | None => Incomplete
  | Some (key, r2) =>
    match zsplit n r2 with
    | None => Incomplete
    | Some (p, rest) =>
      let f := {| wh := h; wkey := key;
                  wpayload := match key with Some k => xor_cyc k 0 p | None => p end |} in
      if shortest then Frame f rest else NotShortest f rest
    end
  end.

Definition dbody (h : hdr) (masked : Z) (lenr : option (Z * bytes * bool)) : dec :=
  match lenr with
  | None => Incomplete
  | Some (n, r1, shortest) => dbody2 h masked n r1 shortest
  end.

Lemma decode_cons b0 b1 r :
  decode (b0 :: b1 :: r) =
  dbody {| h_fin := b0 / 128; h_rsv1 := (b0 / 64) mod 2; h_rsv2 := (b0 / 32) mod 2;
           h_rsv3 := (b0 / 16) mod 2; h_opcode := b0 mod 16 |}
        (b1 / 128) (lenr_of (b1 mod 128) r).
Proof. reflexivity. Qed.

Lemma decode_short s : zlen s < 2 -> decode s = Incomplete.
Proof.
  destruct s as [|b0 [|b1 r]]; [reflexivity|reflexivity|].
  rewrite !zlen_cons. pose proof (zlen_nonneg r). lia.
Qed.

(* the parsed header, its validity, its wire form *)
Definition hdr_ok (h : hdr7) : Prop :=
  let '(fin, r1, r2, r3, op, m, lb) := h in
  0 <= fin <= 1 /\ 0 <= r1 <= 1 /\ 0 <= r2 <= 1 /\ 0 <= r3 <= 1 /\ 0 <= op < 16 /\
  0 <= m <= 1 /\ 0 <= lb < 128.

Definition whdr (h : hdr7) : hdr :=
  let '(fin, r1, r2, r3, op, _, _) := h in
  {| h_fin := fin; h_rsv1 := r1; h_rsv2 := r2; h_rsv3 := r3; h_opcode := op |}.

Definition hdr_bytes (h : hdr7) : bytes :=
  let '(fin, r1, r2, r3, op, m, lb) := h in
  [128 * fin + 64 * r1 + 32 * r2 + 16 * r3 + op; 128 * m + lb].

Definition len_bytes (lb n : Z) : bytes :=
  if lb =? 126 then be_encode 2 n else if lb =? 127 then be_encode 8 n else [].

Definition len_ok (lb n : Z) : Prop :=
  if lb =? 126 then 0 <= n < 65536
  else if lb =? 127 then 0 <= n < 18446744073709551616
  else n = lb.

Definition key_ok (m : Z) (k : bytes) : Prop :=
  if m =? 0 then k = [] else length k = 4%nat /\ bytes_ok k.

Lemma decode_hdr h s : hdr_ok h ->
  decode (hdr_bytes h ++ s) = dbody (whdr h) (tup7_5 h) (lenr_of (tup7_6 h) s).
Proof.
  destruct h as [[[[[[fin r1] r2] r3] op] m] lb]. unfold hdr_ok, hdr_bytes, whdr, tup7_5, tup7_6.
  intros (H1 & H2 & H3 & H4 & H5 & H6 & H7). cbn [app]. rewrite decode_cons.
  f_equal; [f_equal; lia|lia|f_equal; lia].
Qed.

Lemma parse_header_ok b0 b1 : byte_ok b0 -> byte_ok b1 ->
  hdr_ok (parse_header [b0; b1]) /\ hdr_bytes (parse_header [b0; b1]) = [b0; b1].
Proof.
  intros H0 H1. rewrite (g_parse_header b0 b1 H0 H1). unfold byte_ok in *.
  unfold hdr_ok, hdr_bytes. split; [lia|]. f_equal; [lia|f_equal; lia].
Qed.

Lemma lenr_short lb s : 0 <= lb < 128 -> zlen s < len_need lb -> lenr_of lb s = None.
Proof.
  unfold len_need, lenr_of. intros Hlb H. pose proof (zlen_nonneg s).
  destruct (lb =? 126) eqn:E1; [|destruct (lb =? 127) eqn:E2; [|lia]].
  - assert (lb <? 126 = false) as -> by lia. now rewrite zsplit_short.
  - assert (lb <? 126 = false) as -> by lia. now rewrite zsplit_short.
Qed.

Lemma lenr_len lb n s : 0 <= lb < 128 -> len_ok lb n ->
  exists sh, lenr_of lb (len_bytes lb n ++ s) = Some (n, s, sh).
Proof.
  unfold len_ok, len_bytes, lenr_of. intros Hlb H.
  destruct (lb =? 126) eqn:E1; [|destruct (lb =? 127) eqn:E2].
  - assert (lb <? 126 = false) as -> by lia.
    change 2 with (Z.of_nat 2) at 1. rewrite zsplit_lit by apply be_encode_length.
    rewrite be_roundtrip by (rewrite pow256_2; lia). eauto.
  - assert (lb <? 126 = false) as -> by lia.
    change 8 with (Z.of_nat 8) at 1. rewrite zsplit_lit by apply be_encode_length.
    rewrite be_roundtrip by (rewrite pow256_8; lia). eauto.
  - assert (lb <? 126 = true) as -> by lia. subst n. cbn [app]. eauto.
Qed.

Lemma keyr_short m s : 0 <= m <= 1 -> zlen s < (if m =? 0 then 0 else 4) -> keyr_of m s = None.
Proof.
  unfold keyr_of. intros Hm H. pose proof (zlen_nonneg s).
  destruct (m =? 0) eqn:E; [lia|]. assert (m =? 1 = true) as -> by lia. now rewrite zsplit_short.
Qed.

Lemma keyr_key m k s : 0 <= m <= 1 -> key_ok m k ->
  keyr_of m (k ++ s) = Some (if m =? 0 then None else Some k, s).
Proof.
  unfold keyr_of, key_ok. intros Hm H. destruct (m =? 0) eqn:E.
  - subst k. assert (m =? 1 = false) as -> by lia. reflexivity.
  - assert (m =? 1 = true) as -> by lia. destruct H as [Hl _].
    change 4 with (Z.of_nat 4). now rewrite zsplit_lit.
Qed.

(* the four ways a stream can relate to a frame boundary *)
Lemma decode_stage1_short h s : hdr_ok h -> zlen s < len_need (tup7_6 h) ->
  decode (hdr_bytes h ++ s) = Incomplete.
Proof.
  intros Hh H. rewrite decode_hdr by exact Hh. rewrite lenr_short; [reflexivity| |exact H].
  destruct h as [[[[[[fin r1] r2] r3] op] m] lb]. cbn in *. lia.
Qed.

Lemma decode_stage2_short h n s : hdr_ok h -> len_ok (tup7_6 h) n ->
  zlen s < (if tup7_5 h =? 0 then 0 else 4) ->
  decode (hdr_bytes h ++ len_bytes (tup7_6 h) n ++ s) = Incomplete.
Proof.
  intros Hh Hn H. rewrite decode_hdr by exact Hh.
  destruct h as [[[[[[fin r1] r2] r3] op] m] lb]. unfold tup7_5, tup7_6 in *.
  destruct Hh as (_ & _ & _ & _ & _ & Hm & Hlb).
  destruct (lenr_len lb n s Hlb Hn) as [sh ->]. unfold dbody, dbody2. now rewrite keyr_short.
Qed.

Lemma decode_stage3 h n k s : hdr_ok h -> len_ok (tup7_6 h) n -> key_ok (tup7_5 h) k ->
  exists sh,
  decode (hdr_bytes h ++ len_bytes (tup7_6 h) n ++ k ++ s) =
  match zsplit n s with
  | None => Incomplete
  | Some (p, rest) =>
      let f := {| wh := whdr h; wkey := if tup7_5 h =? 0 then None else Some k;
                  wpayload := if tup7_5 h =? 0 then p else xor_cyc k 0 p |} in
      if sh : bool then Frame f rest else NotShortest f rest
  end.
Proof.
  intros Hh Hn Hk. rewrite decode_hdr by exact Hh.
  destruct h as [[[[[[fin r1] r2] r3] op] m] lb]. unfold tup7_5, tup7_6 in *.
  destruct Hh as (_ & _ & _ & _ & _ & Hm & Hlb).
  destruct (lenr_len lb n (k ++ s) Hlb Hn) as [sh ->]. exists sh. unfold dbody, dbody2.
  rewrite keyr_key by assumption. destruct (zsplit n s) as [[p rest]|]; [|reflexivity].
  destruct (m =? 0); reflexivity.
Qed.

(* ================================================================== *)
(* 6. The frame buffer between calls                                   *)
(* ================================================================== *)

Definition buf_ok (need : Z) (buf : bytes) : Prop := bytes_ok buf /\ (buf = [] \/ zlen buf < need).

(* stage memos are filled in order, each memo is what some well-formed bytes parse to, and the
   buffer holds strictly less than the stage in progress asks for *)
Definition fb_inv (fb : fbuf) : Prop :=
  match f_hdr fb with
  | None => f_len fb = None /\ f_mask fb = None /\ buf_ok 2 (f_buf fb)
  | Some h => hdr_ok h /\
    match f_len fb with
    | None => f_mask fb = None /\ buf_ok (len_need (tup7_6 h)) (f_buf fb)
    | Some n => len_ok (tup7_6 h) n /\
      match f_mask fb with
      | None => buf_ok (if tup7_5 h =? 0 then 0 else 4) (f_buf fb)
      | Some k => key_ok (tup7_5 h) k /\ buf_ok n (f_buf fb)
      end
    end
  end.

Lemma fb_inv_init : fb_inv fb_init.
Proof. cbn. repeat split; auto. constructor. Qed.

(* the bytes already taken off the transport, put back in wire form *)
Definition memo_bytes (fb : fbuf) : bytes :=
  match f_hdr fb with
  | None => []
  | Some h => hdr_bytes h ++
    match f_len fb with
    | None => []
    | Some n => len_bytes (tup7_6 h) n ++ match f_mask fb with None => [] | Some k => k end
    end
  end.
Definition reserialise (fb : fbuf) : bytes := memo_bytes fb ++ f_buf fb.
Definition stream (fb : fbuf) (x : xport) : bytes := reserialise fb ++ flatten (inbox x).

Lemma reserialise_init : reserialise fb_init = [].
Proof. reflexivity. Qed.

Definition call_post (skip : bool) (fb : fbuf) (x : xport) (out : res abnf * fbuf * xport) : Prop :=
  let '(r, fb', x') := out in
  match r with
  | Ok a => xle x x' /\ bytes_ok (flatten (inbox x')) /\ fb' = fb_init /\
      exists w, (decode (stream fb x) = Frame w (flatten (inbox x')) \/
                 decode (stream fb x) = NotShortest w (flatten (inbox x'))) /\
                code_verdict skip w = Ok tt /\ wframe_of a = strip_key w
  | Raise Protocol => xle x x' /\ bytes_ok (flatten (inbox x')) /\ fb' = fb_init /\
      exists w, (decode (stream fb x) = Frame w (flatten (inbox x')) \/
                 decode (stream fb x) = NotShortest w (flatten (inbox x'))) /\
                code_verdict skip w = Raise Protocol
  | Raise TimedOut => xle x x' /\ fb_inv fb' /\ stream fb' x' = stream fb x /\
      (length (inbox x') < length (inbox x))%nat
  | Raise ConnClosed => decode (stream fb x) = Incomplete
  | Raise (Transport _) => no_reset (inbox x) = false
  | Raise _ => False
  end.

Lemma call_post_mono skip fb x fb1 x1 out :
  stream fb1 x1 = stream fb x -> xle x x1 -> call_post skip fb1 x1 out -> call_post skip fb x out.
Proof.
  destruct out as [[r fb'] x']. unfold call_post. intros Hs Hx. rewrite Hs.
  destruct r as [a|e].
  - intros (A & B); split; [eapply xle_trans; eassumption|exact B].
  - destruct e; auto.
    + intros (A & B); split; [eapply xle_trans; eassumption|exact B].
    + intros (A & B & C & D); split; [eapply xle_trans; eassumption|].
      destruct Hx as (_ & _ & Hl & _). repeat split; auto. lia.
    + destruct Hx as (_ & _ & _ & Hn). intro H. destruct (no_reset (inbox x)); [|reflexivity].
      rewrite Hn in H by reflexivity. discriminate.
Qed.

Lemma len_ok_nonneg lb n : 0 <= lb < 128 -> len_ok lb n -> 0 <= n.
Proof. unfold len_ok. intros H. destruct (lb =? 126); [lia|]. destruct (lb =? 127); lia. Qed.

Lemma payload_eq m k p : key_ok m k -> bytes_ok p ->
  (if negb (m =? 0) then abnf_mask k p else p) = (if m =? 0 then p else xor_cyc k 0 p).
Proof.
  unfold key_ok. intros Hk Hp. destruct (m =? 0); cbn [negb]; [reflexivity|].
  destruct Hk as [Hl Hk]. rewrite g_abnf_mask. now apply mask_bigint_xor.
Qed.

Lemma bytes_ok_split a b c d : a ++ b = c ++ d -> bytes_ok c -> bytes_ok d -> bytes_ok a /\ bytes_ok b.
Proof. intros E Hc Hd. apply bytes_ok_app. rewrite E. apply bytes_ok_app. auto. Qed.

Section Call.
Variables (fuel : nat) (skip : bool).

Lemma call3 h n k buf x :
  hdr_ok h -> len_ok (tup7_6 h) n -> key_ok (tup7_5 h) k -> buf_ok n buf ->
  script_ok (inbox x) = true -> bytes_ok (flatten (inbox x)) -> (msr (inbox x) < fuel)%nat ->
  call_post skip (FB (Some h) (Some n) (Some k) buf) x
            (recv_frame fuel skip (FB (Some h) (Some n) (Some k) buf) x).
Proof.
  intros Hh Hn Hk [Hbo Hb] Hs Hbx Hf.
  assert (Hst : forall bf s, stream (FB (Some h) (Some n) (Some k) bf) s =
                hdr_bytes h ++ len_bytes (tup7_6 h) n ++ k ++ bf ++ flatten (inbox s)).
  { intros bf s. unfold stream, reserialise, memo_bytes. cbn [f_hdr f_len f_mask f_buf].
    now rewrite <- !app_assoc. }
  destruct (decode_stage3 h n k (buf ++ flatten (inbox x)) Hh Hn Hk) as [sh D].
  destruct h as [[[[[[fin r1] r2] r3] op] m] lb]. unfold tup7_5, tup7_6 in *.
  assert (Hlb : 0 <= lb < 128) by (cbn in Hh; lia).
  pose proof (len_ok_nonneg lb n Hlb Hn) as Hn0.
  unfold recv_frame.
  destruct (recv_strict fuel n buf x) as [[[p|e] b'] x'] eqn:E;
    pose proof (recv_strict_spec _ _ _ _ _ _ _ Hs Hf Hb E) as Sp; cbv beta iota in Sp.
  - destruct Sp as (Hx & -> & Hfl & Hlen).
    rewrite (st3_done _ _ _ _ _ _ _ _ _ _ _ _ _ _ _ _ _ E). cbv zeta.
    destruct (bytes_ok_split _ _ _ _ Hfl Hbo Hbx) as [Hp Hbx'].
    match goal with |- context [abnf_validate _ _ _ _ _ ?pl _] => set (PL := pl) end.
    assert (HPL : PL = if m =? 0 then p else xor_cyc k 0 p) by (apply payload_eq; assumption).
    rewrite <- Hfl in D. replace n with (zlen p) in D at 2 by lia. rewrite zsplit_app in D.
    cbv zeta in D. rewrite <- HPL in D.
    set (W := {| wh := whdr (fin, r1, r2, r3, op, m, lb);
                 wkey := if m =? 0 then None else Some k; wpayload := PL |}) in *.
    assert (HD : decode (stream (FB (Some (fin, r1, r2, r3, op, m, lb)) (Some n) (Some k) buf) x) =
                   Frame W (flatten (inbox x')) \/
                 decode (stream (FB (Some (fin, r1, r2, r3, op, m, lb)) (Some n) (Some k) buf) x) =
                   NotShortest W (flatten (inbox x'))).
    { rewrite Hst. unfold tup7_6. rewrite <- Hfl, D. destruct sh; auto. }
    assert (HV : code_verdict skip W = abnf_validate fin r1 r2 r3 op PL skip) by reflexivity.
    destruct (g_validate_res fin r1 r2 r3 op PL skip) as [V|V]; rewrite V; unfold call_post.
    + repeat split; auto; try apply Hx. exists W. rewrite HV. repeat split; auto.
    + repeat split; auto; try apply Hx. exists W. rewrite HV. repeat split; auto.
  - rewrite (st3_fail _ _ _ _ _ _ _ _ _ _ _ _ _ _ _ _ _ E). unfold call_post.
    destruct e; try contradiction.
    + destruct Sp as [-> Hlt]. rewrite Hst. unfold tup7_6. rewrite D.
      now rewrite zsplit_short.
    + destruct Sp as (Hx & Hfl & Hlt & Hlen). split; [exact Hx|].
      destruct (bytes_ok_split _ _ _ _ Hfl Hbo Hbx) as [Hb' Hbx'].
      split; [|split; [rewrite !Hst; now rewrite Hfl|exact Hlen]].
      unfold fb_inv, buf_ok. cbn [f_hdr f_len f_mask f_buf]. unfold tup7_5, tup7_6. auto 10.
    + exact Sp.
Qed.

Lemma call2 h n buf x :
  hdr_ok h -> len_ok (tup7_6 h) n -> buf_ok (if tup7_5 h =? 0 then 0 else 4) buf ->
  script_ok (inbox x) = true -> bytes_ok (flatten (inbox x)) -> (msr (inbox x) < fuel)%nat ->
  call_post skip (FB (Some h) (Some n) None buf) x
            (recv_frame fuel skip (FB (Some h) (Some n) None buf) x).
Proof.
  intros Hh Hn [Hbo Hb] Hs Hbx Hf.
  assert (Hst : forall mk bf s, stream (FB (Some h) (Some n) mk bf) s =
     hdr_bytes h ++ len_bytes (tup7_6 h) n ++ match mk with Some k => k | None => [] end ++
     bf ++ flatten (inbox s)).
  { intros mk bf s. unfold stream, reserialise, memo_bytes. cbn [f_hdr f_len f_mask f_buf].
    now rewrite <- !app_assoc. }
  pose proof (decode_stage2_short h n (buf ++ flatten (inbox x)) Hh Hn) as D.
  destruct h as [[[[[[fin r1] r2] r3] op] m] lb]. unfold tup7_5, tup7_6 in *.
  assert (Hm : 0 <= m <= 1) by (cbn in Hh; lia).
  unfold recv_frame.
  destruct (mask_need m =? 0) eqn:E0; pose proof E0 as E0'; rewrite g_mask_need in E0'.
  - assert (Em : m =? 0 = true) by (destruct (m =? 0); [reflexivity|discriminate]).
    rewrite Em in *. rewrite st2_skip by exact E0.
    assert (buf = []) as -> by (destruct Hb as [Hb|Hb]; [exact Hb|pose proof (zlen_nonneg buf); lia]).
    eapply call_post_mono; [|apply xle_refl; exact Hs|apply call3; auto].
    + rewrite !Hst. reflexivity.
    + unfold key_ok, tup7_5. now rewrite Em.
    + split; [constructor|now left].
  - assert (Em : m =? 0 = false) by (destruct (m =? 0); [discriminate|reflexivity]).
    rewrite Em in *.
    destruct (recv_strict fuel (mask_need m) buf x) as [[[kk|e] b'] x'] eqn:E;
      pose proof E as E'; rewrite g_mask_need, Em in E';
      pose proof (recv_strict_spec _ _ _ _ _ _ _ Hs Hf Hb E') as Sp; cbv beta iota in Sp.
    + destruct Sp as (Hx & -> & Hfl & Hlen).
      rewrite (st2_adv _ _ _ _ _ _ _ _ _ _ _ _ _ _ _ _ E0 E).
      destruct (bytes_ok_split _ _ _ _ Hfl Hbo Hbx) as [Hkk Hbx'].
      eapply call_post_mono; [|exact Hx|apply call3; auto].
      * rewrite !Hst. cbn [app]. now rewrite Hfl.
      * unfold key_ok, tup7_5. rewrite Em. split; [unfold zlen in Hlen; lia|exact Hkk].
      * split; [constructor|now left].
      * apply Hx.
      * destruct Hx as (_ & Hx & _). lia.
    + rewrite (st2_fail _ _ _ _ _ _ _ _ _ _ _ _ _ _ _ _ E0 E). unfold call_post.
      destruct e; try contradiction.
      * destruct Sp as [-> Hlt]. rewrite Hst. cbn [app]. unfold tup7_6. now apply D.
      * destruct Sp as (Hx & Hfl & Hlt & Hlen). split; [exact Hx|].
        destruct (bytes_ok_split _ _ _ _ Hfl Hbo Hbx) as [Hb' Hbx'].
        split; [|split; [rewrite !Hst; now rewrite Hfl|exact Hlen]].
        unfold fb_inv, buf_ok. cbn [f_hdr f_len f_mask f_buf]. unfold tup7_5, tup7_6.
        rewrite Em. auto 10.
      * exact Sp.
Qed.

Lemma call1 h buf x :
  hdr_ok h -> buf_ok (len_need (tup7_6 h)) buf ->
  script_ok (inbox x) = true -> bytes_ok (flatten (inbox x)) -> (msr (inbox x) < fuel)%nat ->
  call_post skip (FB (Some h) None None buf) x (recv_frame fuel skip (FB (Some h) None None buf) x).
Proof.
  intros Hh [Hbo Hb] Hs Hbx Hf.
  assert (Hst : forall ol bf s, stream (FB (Some h) ol None bf) s =
     hdr_bytes h ++ match ol with Some n => len_bytes (tup7_6 h) n | None => [] end ++
     bf ++ flatten (inbox s)).
  { intros ol bf s. unfold stream, reserialise, memo_bytes. cbn [f_hdr f_len f_mask f_buf].
    destruct ol; rewrite <- ?app_assoc, ?app_nil_r; reflexivity. }
  pose proof (decode_stage1_short h (buf ++ flatten (inbox x)) Hh) as D.
  destruct h as [[[[[[fin r1] r2] r3] op] m] lb]. unfold tup7_5, tup7_6 in *.
  assert (Hlb : 0 <= lb < 128) by (cbn in Hh; lia).
  unfold recv_frame.
  destruct (length_need (fin, r1, r2, r3, op, m, lb) =? 0) eqn:E0; pose proof E0 as E0';
    rewrite g_length_need in E0' by exact Hlb.
  - rewrite st1_skip by exact E0. rewrite g_length_decode by exact Hlb.
    assert (E1 : lb =? 126 = false) by (unfold len_need in E0'; destruct (lb =? 126); [discriminate|reflexivity]).
    assert (E2 : lb =? 127 = false)
      by (unfold len_need in E0'; rewrite E1 in E0'; destruct (lb =? 127); [discriminate|reflexivity]).
    rewrite E1, E2.
    assert (buf = []) as -> by (destruct Hb as [Hb|Hb]; [exact Hb|pose proof (zlen_nonneg buf); lia]).
    eapply call_post_mono; [|apply xle_refl; exact Hs|apply call2; auto].
    + rewrite !Hst. unfold len_bytes, tup7_6. rewrite E1, E2. reflexivity.
    + unfold len_ok, tup7_6. now rewrite E1, E2.
    + split; [constructor|now left].
  - destruct (recv_strict fuel (length_need (fin, r1, r2, r3, op, m, lb)) buf x) as [[[v|e] b'] x'] eqn:E;
      pose proof E as E'; rewrite g_length_need in E' by exact Hlb;
      pose proof (recv_strict_spec _ _ _ _ _ _ _ Hs Hf Hb E') as Sp; cbv beta iota in Sp.
    + destruct Sp as (Hx & -> & Hfl & Hlen).
      rewrite (st1_adv _ _ _ _ _ _ _ _ _ _ _ _ _ _ _ _ E0 E).
      destruct (bytes_ok_split _ _ _ _ Hfl Hbo Hbx) as [Hv Hbx'].
      rewrite g_length_decode by exact Hlb.
      pose proof (be_decode_bound v Hv) as Hbd. pose proof (be_encode_decode v Hv) as Hed.
      assert (Hn : len_ok lb (if lb =? 126 then be_decode v else if lb =? 127 then be_decode v else lb)
                   /\ len_bytes lb (if lb =? 126 then be_decode v else if lb =? 127 then be_decode v else lb) = v).
      { unfold len_ok, len_bytes, len_need in *.
        destruct (lb =? 126) eqn:E1; [|destruct (lb =? 127) eqn:E2; [|discriminate]].
        - replace (length v) with 2%nat in Hed by (unfold zlen in Hlen; lia).
          rewrite Hlen in Hbd. change (256 ^ Z.max 0 2) with 65536 in Hbd. auto.
        - replace (length v) with 8%nat in Hed by (unfold zlen in Hlen; lia).
          rewrite Hlen in Hbd. change (256 ^ Z.max 0 8) with 18446744073709551616 in Hbd. auto. }
      destruct Hn as [Hn Hlb'].
      eapply call_post_mono; [|exact Hx|apply call2; auto].
      * rewrite !Hst. unfold tup7_6. rewrite Hlb'. cbn [app]. now rewrite Hfl.
      * split; [constructor|now left].
      * apply Hx.
      * destruct Hx as (_ & Hx & _). lia.
    + rewrite (st1_fail _ _ _ _ _ _ _ _ _ _ _ _ _ _ _ _ E0 E). unfold call_post.
      destruct e; try contradiction.
      * destruct Sp as [-> Hlt]. rewrite Hst. cbn [app]. now apply D.
      * destruct Sp as (Hx & Hfl & Hlt & Hlen). split; [exact Hx|].
        destruct (bytes_ok_split _ _ _ _ Hfl Hbo Hbx) as [Hb' Hbx'].
        split; [|split; [rewrite !Hst; now rewrite Hfl|exact Hlen]].
        unfold fb_inv, buf_ok. cbn [f_hdr f_len f_mask f_buf]. unfold tup7_5, tup7_6. auto 10.
      * exact Sp.
Qed.

Lemma zlen2 (b : bytes) : zlen b = 2 -> exists b0 b1, b = [b0; b1].
Proof.
  destruct b as [|b0 [|b1 [|b2 r]]]; rewrite ?zlen_cons, ?zlen_nil; intro H.
  - lia.
  - lia.
  - eauto.
  - pose proof (zlen_nonneg r). lia.
Qed.

Lemma call0 buf x :
  buf_ok 2 buf ->
  script_ok (inbox x) = true -> bytes_ok (flatten (inbox x)) -> (msr (inbox x) < fuel)%nat ->
  call_post skip (FB None None None buf) x (recv_frame fuel skip (FB None None None buf) x).
Proof.
  intros [Hbo Hb] Hs Hbx Hf. unfold recv_frame.
  destruct (recv_strict fuel header_need buf x) as [[[b|e] b'] x'] eqn:E;
    pose proof E as E'; rewrite g_header_need in E';
    pose proof (recv_strict_spec _ _ _ _ _ _ _ Hs Hf Hb E') as Sp; cbv beta iota in Sp.
  - destruct Sp as (Hx & -> & Hfl & Hlen).
    rewrite (st0_adv _ _ _ _ _ _ _ _ _ _ E).
    destruct (bytes_ok_split _ _ _ _ Hfl Hbo Hbx) as [Hv Hbx'].
    destruct (zlen2 b Hlen) as (b0 & b1 & ->).
    inversion Hv as [|? ? H0 Hv']; subst. inversion Hv' as [|? ? H1 _]; subst.
    destruct (parse_header_ok b0 b1 H0 H1) as [Hh Hhb].
    eapply call_post_mono; [|exact Hx|apply call1; auto].
    + unfold stream, reserialise, memo_bytes. cbn [f_hdr f_len f_mask f_buf].
      rewrite Hhb. cbn [app] in *. exact Hfl.
    + split; [constructor|now left].
    + apply Hx.
    + destruct Hx as (_ & Hx & _). lia.
  - rewrite (st0_fail _ _ _ _ _ _ _ _ _ _ E). unfold call_post.
    destruct e; try contradiction.
    + destruct Sp as [-> Hlt]. now apply decode_short.
    + destruct Sp as (Hx & Hfl & Hlt & Hlen). split; [exact Hx|].
      destruct (bytes_ok_split _ _ _ _ Hfl Hbo Hbx) as [Hb' Hbx'].
      split; [|split; [exact Hfl|exact Hlen]].
      unfold fb_inv, buf_ok. cbn [f_hdr f_len f_mask f_buf]. auto 10.
    + exact Sp.
Qed.

Theorem recv_frame_call fb x :
  fb_inv fb -> script_ok (inbox x) = true -> bytes_ok (flatten (inbox x)) ->
  (msr (inbox x) < fuel)%nat -> call_post skip fb x (recv_frame fuel skip fb x).
Proof.
  destruct fb as [[h|] ol mk buf]; unfold fb_inv; cbn [f_hdr f_len f_mask f_buf].
  - intros [Hh H]. destruct ol as [n|].
    + destruct H as [Hn H]. destruct mk as [k|].
      * destruct H. now apply call3.
      * now apply call2.
    + destruct H as [-> H]. now apply call1.
  - intros (-> & -> & H). now apply call0.
Qed.

End Call.

Lemma reserialise_ok fb : fb_inv fb -> bytes_ok (reserialise fb).
Proof.
  assert (HB : forall h, hdr_ok h -> bytes_ok (hdr_bytes h)).
  { intros [[[[[[fin r1] r2] r3] op] m] lb] H. cbn in H. unfold hdr_bytes.
    constructor; [unfold byte_ok; lia|]. constructor; [unfold byte_ok; lia|constructor]. }
  assert (LB : forall lb n, bytes_ok (len_bytes lb n)).
  { intros lb n. unfold len_bytes. destruct (lb =? 126); [apply be_encode_ok|].
    destruct (lb =? 127); [apply be_encode_ok|constructor]. }
  assert (KB : forall m k, key_ok m k -> bytes_ok k).
  { intros m k. unfold key_ok. destruct (m =? 0); [intros ->; constructor|tauto]. }
  destruct fb as [[h|] [n|] [k|] buf]; unfold fb_inv, reserialise, memo_bytes, buf_ok;
    cbn [f_hdr f_len f_mask f_buf]; intro H; repeat (apply bytes_ok_app; split);
    try (apply HB; tauto); try apply LB; try (eapply KB; apply H); try tauto; try constructor;
    try (decompose [and] H; discriminate).
Qed.

(* ================================================================== *)
(* 7. A timeout loses, duplicates and reorders nothing                 *)
(* ================================================================== *)

Lemma recv_frame_timeout_resume : forall skip fb x fb' x',
  fb_inv fb -> script_ok (inbox x) = true -> bytes_ok (flatten (inbox x)) ->
  recv_frame (fuel_for (inbox x)) skip fb x = (Raise TimedOut, fb', x') ->
  fb_inv fb' /\
  reserialise fb' ++ flatten (inbox x') = reserialise fb ++ flatten (inbox x) /\
  (length (inbox x') < length (inbox x))%nat.
Proof.
  intros skip fb x fb' x' Hi Hs Hb H.
  pose proof (recv_frame_call (fuel_for (inbox x)) skip fb x Hi Hs Hb
                ltac:(rewrite fuel_for_msr; lia)) as P.
  rewrite H in P. unfold call_post in P. destruct P as (_ & A & B & C). auto.
Qed.

(* the invariant is kept by every outcome after which the caller can go on *)
Lemma recv_frame_keeps_inv : forall skip fb x r fb' x',
  fb_inv fb -> script_ok (inbox x) = true -> bytes_ok (flatten (inbox x)) ->
  recv_frame (fuel_for (inbox x)) skip fb x = (r, fb', x') ->
  r <> Raise ConnClosed -> (forall c, r <> Raise (Transport c)) -> fb_inv fb'.
Proof.
  intros skip fb x r fb' x' Hi Hs Hb H N1 N2.
  pose proof (recv_frame_call (fuel_for (inbox x)) skip fb x Hi Hs Hb
                ltac:(rewrite fuel_for_msr; lia)) as P.
  rewrite H in P. unfold call_post in P. destruct r as [a|e].
  - destruct P as (_ & _ & -> & _). apply fb_inv_init.
  - destruct e; try contradiction.
    + destruct P as (_ & _ & -> & _). apply fb_inv_init.
    + apply P.
    + exfalso. eapply N2. reflexivity.
Qed.

(* ================================================================== *)
(* 8. Repeated calls = the RFC decoder applied repeatedly              *)
(* ================================================================== *)

Lemma zsplit_len n l a r : zsplit n l = Some (a, r) -> (length r <= length l)%nat.
Proof. intro H. apply zsplit_some in H as [-> _]. rewrite app_length. lia. Qed.

Lemma dbody2_consumes h m n r1 sh w rest :
  dbody2 h m n r1 sh = Frame w rest \/ dbody2 h m n r1 sh = NotShortest w rest ->
  (length rest <= length r1)%nat.
Proof.
  unfold dbody2, keyr_of. intro HH. destruct (m =? 1).
  - destruct (zsplit 4 r1) as [[k r2]|] eqn:E4; [|destruct HH; discriminate].
    apply zsplit_len in E4.
    destruct (zsplit n r2) as [[p rest']|] eqn:En; [|destruct HH; discriminate].
    apply zsplit_len in En. cbv zeta in HH.
    destruct sh; destruct HH as [HH|HH]; inversion HH; subst; lia.
  - destruct (zsplit n r1) as [[p rest']|] eqn:En; [|destruct HH; discriminate].
    apply zsplit_len in En. cbv zeta in HH.
    destruct sh; destruct HH as [HH|HH]; inversion HH; subst; lia.
Qed.

Lemma lenr_consumes l7 r n r1 sh : lenr_of l7 r = Some (n, r1, sh) -> (length r1 <= length r)%nat.
Proof.
  unfold lenr_of. destruct (l7 <? 126); [intro H; inversion H; subst; lia|].
  destruct (l7 =? 126).
  - destruct (zsplit 2 r) as [[e r']|] eqn:E; [|discriminate]. apply zsplit_len in E.
    intro H; inversion H; subst; lia.
  - destruct (zsplit 8 r) as [[e r']|] eqn:E; [|discriminate]. apply zsplit_len in E.
    intro H; inversion H; subst; lia.
Qed.

Lemma decode_consumes s w rest :
  decode s = Frame w rest \/ decode s = NotShortest w rest -> (length rest < length s)%nat.
Proof.
  destruct s as [|b0 [|b1 r]]; [intros [H|H]; discriminate|intros [H|H]; discriminate|].
  rewrite decode_cons. cbn [length]. unfold dbody.
  destruct (lenr_of (b1 mod 128) r) as [[[n r1] sh]|] eqn:E; [|intros [H|H]; discriminate].
  apply lenr_consumes in E. intro H. apply dbody2_consumes in H. lia.
Qed.

Definition strip_res (r : res wframe) : res wframe :=
  match r with Ok f => Ok (strip_key f) | Raise e => Raise e end.

Lemma stream_results_S v k s :
  stream_results v (S k) s =
  match next_frame v s with
  | Some (r, rest) => r :: stream_results v k rest
  | None => [Raise ConnClosed]
  end.
Proof. reflexivity. Qed.

Lemma drain_gen : forall fuel1 fuel2 skip fb x,
  fb_inv fb -> script_ok (inbox x) = true -> no_reset (inbox x) = true ->
  bytes_ok (flatten (inbox x)) ->
  (length (stream fb x) + length (inbox x) < fuel1)%nat ->
  (length (stream fb x) < fuel2)%nat ->
  drain fuel1 skip fb x = map strip_res (stream_results (code_verdict skip) fuel2 (stream fb x)).
Proof.
  induction fuel1 as [|k IH]; intros fuel2 skip fb x Hi Hs Hn Hb H1 H2; [lia|].
  destruct fuel2 as [|k2]; [lia|].
  cbn [drain].
  assert (Hlen : length (stream fb x) = (length (reserialise fb) + length (flatten (inbox x)))%nat)
    by (unfold stream; apply app_length).
  pose proof (recv_frame_call (fuel_for (inbox x)) skip fb x Hi Hs Hb
                ltac:(rewrite fuel_for_msr; lia)) as P.
  destruct (recv_frame (fuel_for (inbox x)) skip fb x) as [[r fb'] x'].
  unfold call_post in P. destruct r as [a|e].
  - destruct P as (Hx & Hb' & -> & w & HD & HV & HW).
    pose proof (decode_consumes _ _ _ HD) as Hc. destruct Hx as (Hs' & _ & Hl & Hn').
    assert (E : stream fb_init x' = flatten (inbox x')) by reflexivity.
    rewrite stream_results_S. unfold next_frame.
    destruct HD as [HD|HD]; rewrite HD, HV; cbn [map strip_res]; rewrite HW; f_equal;
      rewrite <- E; apply IH; auto using fb_inv_init; rewrite E; lia.
  - destruct e; try contradiction.
    + destruct P as (Hx & Hb' & -> & w & HD & HV).
      pose proof (decode_consumes _ _ _ HD) as Hc. destruct Hx as (Hs' & _ & Hl & Hn').
      assert (E : stream fb_init x' = flatten (inbox x')) by reflexivity.
      rewrite stream_results_S. unfold next_frame.
      destruct HD as [HD|HD]; rewrite HD, HV; cbn [map strip_res]; f_equal;
        rewrite <- E; apply IH; auto using fb_inv_init; rewrite E; lia.
    + rewrite stream_results_S. unfold next_frame. rewrite P. reflexivity.
    + destruct P as (Hx & Hi' & HS & Hl). destruct Hx as (Hs' & _ & _ & Hn').
      assert (Hb' : bytes_ok (flatten (inbox x'))).
      { assert (Hall : bytes_ok (stream fb' x')).
        { rewrite HS. unfold stream. apply bytes_ok_app. split; [|exact Hb].
          now apply reserialise_ok. }
        unfold stream in Hall. apply bytes_ok_app in Hall. apply Hall. }
      rewrite <- HS. apply IH; auto; rewrite HS; lia.
    + rewrite Hn in P. discriminate.
Qed.

Theorem drain_is_stream_gen : forall skip l fuel2,
  script_ok l = true -> no_reset l = true -> bytes_ok (flatten l) ->
  (length (flatten l) < fuel2)%nat ->
  drain (drain_fuel l) skip fb_init (mk_xport l) =
  map (fun r => match r with Ok f => Ok (strip_key f) | Raise e => Raise e end)
      (stream_results (code_verdict skip) fuel2 (flatten l)).
Proof.
  intros skip l fuel2 Hs Hn Hb Hf.
  change (flatten l) with (stream fb_init (mk_xport l)).
  apply (drain_gen (drain_fuel l) fuel2 skip fb_init (mk_xport l)); auto using fb_inv_init.
  all: change (stream fb_init (mk_xport l)) with (flatten l); cbn [mk_xport inbox];
    unfold drain_fuel; lia.
Qed.

Theorem drain_is_stream : forall skip l,
  script_ok l = true -> no_reset l = true -> bytes_ok (flatten l) ->
  drain (drain_fuel l) skip fb_init (mk_xport l) =
  map (fun r => match r with Ok f => Ok (strip_key f) | Raise e => Raise e end)
      (stream_results (code_verdict skip) (drain_fuel l) (flatten l)).
Proof.
  intros skip l Hs Hn Hb. apply drain_is_stream_gen; auto. unfold drain_fuel. lia.
Qed.

Corollary segmentation_independent : forall skip l1 l2,
  script_ok l1 = true -> script_ok l2 = true -> no_reset l1 = true -> no_reset l2 = true ->
  bytes_ok (flatten l1) -> flatten l1 = flatten l2 ->
  drain (drain_fuel l1) skip fb_init (mk_xport l1) =
  drain (drain_fuel l2) skip fb_init (mk_xport l2).
Proof.
  intros skip l1 l2 S1 S2 N1 N2 Hb E.
  rewrite (drain_is_stream skip l1 S1 N1 Hb).
  rewrite (drain_is_stream_gen skip l2 (drain_fuel l1) S2 N2).
  - now rewrite E.
  - now rewrite <- E.
  - rewrite <- E. unfold drain_fuel. lia.
Qed.

(* both sides of drain_is_stream are complete runs: they end with the end-of-stream report *)
Lemma stream_results_total v : forall k s, (length s < k)%nat ->
  exists pre, stream_results v k s = pre ++ [Raise ConnClosed].
Proof.
  induction k as [|k IH]; intros s H; [lia|]. rewrite stream_results_S. unfold next_frame.
  destruct (decode s) as [f rest|f rest|] eqn:E.
  - assert (Hc : (length rest < length s)%nat) by (eapply decode_consumes; eauto).
    destruct (IH rest ltac:(lia)) as [pre ->]. eexists (_ :: pre). reflexivity.
  - assert (Hc : (length rest < length s)%nat) by (eapply decode_consumes; eauto).
    destruct (IH rest ltac:(lia)) as [pre ->]. eexists (_ :: pre). reflexivity.
  - exists []. reflexivity.
Qed.

Corollary drain_total : forall skip l,
  script_ok l = true -> no_reset l = true -> bytes_ok (flatten l) ->
  exists pre, drain (drain_fuel l) skip fb_init (mk_xport l) = pre ++ [Raise ConnClosed].
Proof.
  intros skip l Hs Hn Hb. rewrite drain_is_stream by assumption.
  destruct (stream_results_total (code_verdict skip) (drain_fuel l) (flatten l)
              ltac:(unfold drain_fuel; lia)) as [pre ->].
  rewrite map_app. eexists. reflexivity.
Qed.

Print Assumptions drain_is_stream.
Print Assumptions drain_total.
Print Assumptions segmentation_independent.
Print Assumptions read_sizes_bounded.
Print Assumptions recv_frame_never_out_of_fuel.
Print Assumptions recv_frame_timeout_resume.
Print Assumptions recv_frame_keeps_inv.
Print Assumptions recv_frame_call.
