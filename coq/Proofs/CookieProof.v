(* C20: the cookie jar model (Model/Cookie.v) against the specification (Spec/Cookie.v),
   for ALL histories of responses (induction over the history, no bound). *)
From Coq Require Import ZArith List Bool Lia Permutation Sorted.
From WS Require Import Base.Bytes Base.Str Model.Cookie Spec.Cookie.
Import ListNotations.
Open Scope Z_scope.

(* ------------------------------------------------------------------------------------------ *)
(* strings *)

Lemma str_eqb_eq : forall a b, str_eqb a b = true <-> a = b.
Proof.
  induction a as [|x a IH]; destruct b as [|y b]; simpl; split; intro H;
    try reflexivity; try discriminate.
  - apply andb_true_iff in H. destruct H as [H1 H2]. apply Z.eqb_eq in H1.
    apply IH in H2. subst. reflexivity.
  - inversion H; subst. apply andb_true_iff. split; [apply Z.eqb_refl | apply IH; reflexivity].
Qed.

Lemma str_eqb_refl : forall a, str_eqb a a = true.
Proof. intro a. apply str_eqb_eq. reflexivity. Qed.

Lemma str_eqb_neq : forall a b, str_eqb a b = false <-> a <> b.
Proof.
  intros a b. split.
  - intros H E. apply str_eqb_eq in E. congruence.
  - intro H. destruct (str_eqb a b) eqn:E; [apply str_eqb_eq in E; contradiction | reflexivity].
Qed.

Definition key_eqb (a b : str * str) : bool := str_eqb (fst a) (fst b) && str_eqb (snd a) (snd b).

Lemma key_eqb_eq : forall a b, key_eqb a b = true <-> a = b.
Proof.
  intros [a1 a2] [b1 b2]. unfold key_eqb. simpl. rewrite andb_true_iff, !str_eqb_eq.
  split; [intros [-> ->]; reflexivity | intro H; inversion H; auto].
Qed.

(* ------------------------------------------------------------------------------------------ *)
(* association lists *)

Lemma alist_get_set : forall A k k' (v : A) l,
  alist_get k (alist_set k' v l) = if str_eqb k k' then Some v else alist_get k l.
Proof.
  induction l as [|[k0 v0] r IH]; simpl.
  - reflexivity.
  - destruct (str_eqb k' k0) eqn:E0; simpl.
    + apply str_eqb_eq in E0. subst k0. destruct (str_eqb k k'); reflexivity.
    + rewrite IH. destruct (str_eqb k k0) eqn:E1; [|reflexivity].
      apply str_eqb_eq in E1. subst k0.
      destruct (str_eqb k k') eqn:E2; [|reflexivity].
      apply str_eqb_eq in E2. subst k'. rewrite str_eqb_refl in E0. discriminate.
Qed.

Lemma alist_set_set : forall A k (v w : A) l, alist_set k v (alist_set k w l) = alist_set k v l.
Proof.
  induction l as [|[k0 v0] r IH]; simpl.
  - rewrite str_eqb_refl. reflexivity.
  - destruct (str_eqb k k0) eqn:E; simpl.
    + rewrite str_eqb_refl. reflexivity.
    + rewrite E, IH. reflexivity.
Qed.

Lemma alist_set_keys_in : forall A k (v : A) l x,
  In x (map fst (alist_set k v l)) -> x = k \/ In x (map fst l).
Proof.
  induction l as [|[k0 v0] r IH]; simpl; intros x H.
  - destruct H as [H|[]]. auto.
  - destruct (str_eqb k k0) eqn:E; simpl in H.
    + destruct H as [H|H]; auto.
    + destruct H as [H|H]; auto. apply IH in H. tauto.
Qed.

Lemma alist_set_vals_in : forall A k (v : A) l x,
  In x (map snd (alist_set k v l)) -> x = v \/ In x (map snd l).
Proof.
  induction l as [|[k0 v0] r IH]; simpl; intros x H.
  - destruct H as [H|[]]. auto.
  - destruct (str_eqb k k0) eqn:E; simpl in H.
    + destruct H as [H|H]; auto.
    + destruct H as [H|H]; auto. apply IH in H. tauto.
Qed.

Lemma alist_set_nodup : forall A k (v : A) l,
  NoDup (map fst l) -> NoDup (map fst (alist_set k v l)).
Proof.
  induction l as [|[k0 v0] r IH]; simpl; intro H.
  - constructor; [intros [] | constructor].
  - inversion H as [|? ? Hn Hr]; subst. destruct (str_eqb k k0) eqn:E; simpl.
    + apply str_eqb_eq in E. subst k0. constructor; assumption.
    + constructor; [|apply IH; assumption].
      intro Hin. apply alist_set_keys_in in Hin. destruct Hin as [Hin|Hin]; [|contradiction].
      subst k0. rewrite str_eqb_refl in E. discriminate.
Qed.

Lemma alist_get_in : forall A k (v : A) l, alist_get k l = Some v -> In (k, v) l.
Proof.
  induction l as [|[k0 v0] r IH]; simpl; intro H; [discriminate|].
  destruct (str_eqb k k0) eqn:E.
  - apply str_eqb_eq in E. inversion H; subst. auto.
  - auto.
Qed.

Lemma alist_in_get : forall A k (v : A) l,
  NoDup (map fst l) -> In (k, v) l -> alist_get k l = Some v.
Proof.
  induction l as [|[k0 v0] r IH]; simpl; intros Hn H; [contradiction|].
  inversion Hn as [|? ? Hni Hr]; subst. destruct H as [H|H].
  - inversion H; subst. rewrite str_eqb_refl. reflexivity.
  - destruct (str_eqb k k0) eqn:E.
    + apply str_eqb_eq in E. subst k0. exfalso. apply Hni.
      change k with (fst (k, v)). apply in_map. assumption.
    + auto.
Qed.

(* ------------------------------------------------------------------------------------------ *)
(* generic list lemmas missing from the 8.16 library *)

Lemma NoDup_app_intro : forall A (l1 l2 : list A),
  NoDup l1 -> NoDup l2 -> (forall x, In x l1 -> ~ In x l2) -> NoDup (l1 ++ l2).
Proof.
  induction l1 as [|a l1 IH]; simpl; intros l2 H1 H2 Hd; [assumption|].
  inversion H1; subst. constructor.
  - rewrite in_app_iff. intros [H|H]; [contradiction | exact (Hd a (or_introl eq_refl) H)].
  - apply IH; auto.
Qed.

Lemma Permutation_filter' : forall A (f : A -> bool) l1 l2,
  Permutation l1 l2 -> Permutation (filter f l1) (filter f l2).
Proof.
  induction 1; simpl.
  - constructor.
  - destruct (f x); [constructor|]; assumption.
  - destruct (f x), (f y); try constructor; try apply Permutation_refl.
  - eapply Permutation_trans; eassumption.
Qed.

Lemma filter_map_comm : forall A B (g : A -> B) (p : B -> bool) l,
  filter p (map g l) = map g (filter (fun x => p (g x)) l).
Proof.
  induction l as [|a l IH]; simpl; [reflexivity|].
  destruct (p (g a)); simpl; rewrite IH; reflexivity.
Qed.

Lemma map_flat_map : forall A B C (g : B -> C) (f : A -> list B) l,
  map g (flat_map f l) = flat_map (fun x => map g (f x)) l.
Proof.
  induction l as [|a l IH]; simpl; [reflexivity|]. rewrite map_app, IH. reflexivity.
Qed.

Lemma existsb_map : forall A B (g : A -> B) (p : B -> bool) l,
  existsb p (map g l) = existsb (fun x => p (g x)) l.
Proof. induction l as [|a l IH]; simpl; [reflexivity|]. rewrite IH. reflexivity. Qed.

(* ------------------------------------------------------------------------------------------ *)
(* Python's string order and sorted() *)

Definition sle (a b : str) : Prop := str_leb a b = true.

Lemma str_leb_total : forall a b, str_leb a b = true \/ str_leb b a = true.
Proof.
  induction a as [|x a IH]; destruct b as [|y b]; simpl; auto.
  destruct (Z.ltb_spec x y); auto. destruct (Z.ltb_spec y x); auto.
Qed.

Lemma str_leb_trans : forall a b c, str_leb a b = true -> str_leb b c = true -> str_leb a c = true.
Proof.
  induction a as [|x a IH]; destruct b as [|y b]; destruct c as [|z c]; simpl; intros H1 H2;
    try reflexivity; try discriminate.
  destruct (Z.ltb_spec x y); destruct (Z.ltb_spec y x); destruct (Z.ltb_spec y z);
    destruct (Z.ltb_spec z y); destruct (Z.ltb_spec x z); destruct (Z.ltb_spec z x);
    try reflexivity; try discriminate; try lia; eauto.
Qed.

Lemma str_leb_antisym : forall a b, str_leb a b = true -> str_leb b a = true -> a = b.
Proof.
  induction a as [|x a IH]; destruct b as [|y b]; simpl; intros H1 H2;
    try reflexivity; try discriminate.
  destruct (Z.ltb_spec x y); destruct (Z.ltb_spec y x); try discriminate; try lia.
  assert (x = y) by lia. subst. f_equal. auto.
Qed.

Lemma insert_str_perm : forall x l, Permutation (insert_str x l) (x :: l).
Proof.
  induction l as [|y r IH]; simpl; [apply Permutation_refl|].
  destruct (str_leb x y); [apply Permutation_refl|].
  eapply Permutation_trans; [apply perm_skip; exact IH | apply perm_swap].
Qed.

Lemma sort_str_perm : forall l, Permutation (sort_str l) l.
Proof.
  induction l as [|x r IH]; simpl; [constructor|].
  eapply Permutation_trans; [apply insert_str_perm | apply perm_skip; exact IH].
Qed.

Lemma insert_str_sorted : forall x l, StronglySorted sle l -> StronglySorted sle (insert_str x l).
Proof.
  induction l as [|y r IH]; simpl; intro H.
  - constructor; constructor.
  - inversion H as [|? ? Hr Hall]; subst. destruct (str_leb x y) eqn:E.
    + constructor; [assumption|]. constructor; [exact E|].
      rewrite Forall_forall in *. intros z Hz. eapply str_leb_trans; [exact E | apply Hall; exact Hz].
    + constructor; [apply IH; assumption|].
      rewrite Forall_forall in *. intros z Hz.
      apply (Permutation_in _ (insert_str_perm x r)) in Hz. destruct Hz as [Hz|Hz].
      * subst z. destruct (str_leb_total x y) as [T|T]; [congruence | exact T].
      * apply Hall; exact Hz.
Qed.

Lemma sort_str_sorted : forall l, StronglySorted sle (sort_str l).
Proof. induction l; simpl; [constructor | apply insert_str_sorted; assumption]. Qed.

Lemma sorted_perm_unique : forall l1 l2,
  StronglySorted sle l1 -> StronglySorted sle l2 -> Permutation l1 l2 -> l1 = l2.
Proof.
  induction l1 as [|a l1 IH]; intros l2 S1 S2 P.
  - apply Permutation_nil in P. subst. reflexivity.
  - destruct l2 as [|b l2]; [apply Permutation_sym, Permutation_nil in P; discriminate|].
    inversion S1 as [|? ? S1' A1]; inversion S2 as [|? ? S2' A2]; subst.
    rewrite Forall_forall in A1, A2.
    assert (a = b).
    { assert (Hab : sle a b).
      { assert (In b (a :: l1)) by (apply (Permutation_in _ (Permutation_sym P)); left; reflexivity).
        destruct H as [H|H]; [subst; destruct (str_leb_total b b); assumption | apply A1; exact H]. }
      assert (Hba : sle b a).
      { assert (In a (b :: l2)) by (apply (Permutation_in _ P); left; reflexivity).
        destruct H as [H|H]; [subst; destruct (str_leb_total a a); assumption | apply A2; exact H]. }
      apply str_leb_antisym; assumption. }
    subst b. f_equal. apply IH; try assumption. eapply Permutation_cons_inv; exact P.
Qed.

Lemma sort_str_perm_eq : forall l1 l2, Permutation l1 l2 -> sort_str l1 = sort_str l2.
Proof.
  intros l1 l2 P. apply sorted_perm_unique; try apply sort_str_sorted.
  eapply Permutation_trans; [apply sort_str_perm|].
  eapply Permutation_trans; [exact P | apply Permutation_sym, sort_str_perm].
Qed.

(* the specification's order and sort are the same functions *)
Lemma str_le_leb : forall a b, str_le a b = str_leb a b.
Proof.
  unfold str_le. induction a as [|x a IH]; destruct b as [|y b]; simpl; try reflexivity.
  destruct (Z.compare_spec x y) as [E|L|G].
  - subst. rewrite Z.ltb_irrefl. apply IH.
  - apply Z.ltb_lt in L. rewrite L. reflexivity.
  - assert (x <? y = false) by (apply Z.ltb_ge; lia). rewrite H.
    apply Z.ltb_lt in G. rewrite G. reflexivity.
Qed.

Lemma sorted_sort_str : forall l, sorted l = sort_str l.
Proof.
  induction l as [|x r IH]; simpl; [reflexivity|]. rewrite IH.
  generalize (sort_str r). induction l as [|y l IHl]; simpl; [reflexivity|].
  rewrite str_le_leb, IHl. reflexivity.
Qed.

(* ------------------------------------------------------------------------------------------ *)
(* the jar as a store of facts ((domain key, name), value) *)

Definition nfact := (str * str * str)%type.          (* ((key, name), value) *)

Definition cookie_of (K : str) (j : jar) : cookie :=
  match alist_get K j with Some c => c | None => [] end.

Definition jar_put (j : jar) (f : nfact) : jar :=
  alist_set (fst (fst f)) (alist_set (snd (fst f)) (snd f) (cookie_of (fst (fst f)) j)) j.

Definition jlookup (j : jar) (K n : str) : option str :=
  match alist_get K j with Some c => alist_get n c | None => None end.

Definition jar_facts (j : jar) : list nfact :=
  flat_map (fun kc : str * cookie => map (fun nv : str * str => (fst kc, fst nv, snd nv)) (snd kc)) j.

Definition wf_jar (j : jar) : Prop :=
  NoDup (map fst j) /\ forall c, In c (map snd j) -> NoDup (map fst c).

Lemma wf_jar_nil : wf_jar [].
Proof. split; [constructor | intros c []]. Qed.

Lemma cookie_of_wf : forall j K, wf_jar j -> NoDup (map fst (cookie_of K j)).
Proof.
  intros j K [_ H]. unfold cookie_of. destruct (alist_get K j) eqn:E; [|constructor].
  apply H. apply alist_get_in in E. change c with (snd (K, c)). apply in_map. exact E.
Qed.

Lemma jar_put_wf : forall j f, wf_jar j -> wf_jar (jar_put j f).
Proof.
  intros j [[K n] v] W. pose proof (cookie_of_wf j K W) as Hc. destruct W as [W1 W2].
  unfold jar_put. simpl. split.
  - apply alist_set_nodup. exact W1.
  - intros c Hin. apply alist_set_vals_in in Hin. destruct Hin as [->|Hin]; [|auto].
    apply alist_set_nodup. exact Hc.
Qed.

Lemma fold_put_wf : forall fs j, wf_jar j -> wf_jar (fold_left jar_put fs j).
Proof. induction fs as [|f fs IH]; simpl; intros j W; [exact W | apply IH, jar_put_wf, W]. Qed.

Lemma jlookup_cookie_of : forall j K n, alist_get n (cookie_of K j) = jlookup j K n.
Proof. intros. unfold cookie_of, jlookup. destruct (alist_get K j); reflexivity. Qed.

Lemma jlookup_put : forall j f K n,
  jlookup (jar_put j f) K n = if key_eqb (K, n) (fst f) then Some (snd f) else jlookup j K n.
Proof.
  intros j [[K' n'] v'] K n. unfold jar_put, key_eqb. simpl. unfold jlookup at 1.
  rewrite alist_get_set. destruct (str_eqb K K') eqn:E; simpl.
  - apply str_eqb_eq in E. subst K'. rewrite alist_get_set, jlookup_cookie_of. reflexivity.
  - reflexivity.
Qed.

(* the last fact about a key *)
Fixpoint latest (fs : list nfact) (k : str * str) : option str :=
  match fs with
  | [] => None
  | f :: r => match latest r k with
              | Some v => Some v
              | None => if key_eqb k (fst f) then Some (snd f) else None
              end
  end.

Lemma jlookup_fold : forall fs j K n,
  jlookup (fold_left jar_put fs j) K n =
  match latest fs (K, n) with Some v => Some v | None => jlookup j K n end.
Proof.
  induction fs as [|f fs IH]; simpl; intros j K n; [reflexivity|].
  rewrite IH. destruct (latest fs (K, n)); [reflexivity|]. rewrite jlookup_put.
  destruct (key_eqb (K, n) (fst f)); reflexivity.
Qed.

Lemma in_jar_facts : forall j K n v, wf_jar j ->
  (In (K, n, v) (jar_facts j) <-> jlookup j K n = Some v).
Proof.
  intros j K n v [W1 W2]. unfold jar_facts, jlookup. rewrite in_flat_map. split.
  - intros [[K' c] [Hin Hm]]. simpl in Hm. apply in_map_iff in Hm.
    destruct Hm as [[n' v'] [Heq Hnv]]. simpl in Heq. inversion Heq; subst.
    rewrite (alist_in_get _ _ _ _ W1 Hin). apply alist_in_get; [|exact Hnv].
    apply W2. change c with (snd (K, c)). apply in_map. exact Hin.
  - destruct (alist_get K j) eqn:E; [|discriminate]. intro H.
    exists (K, c). split; [apply alist_get_in; exact E|]. simpl.
    apply in_map_iff. exists (n, v). split; [reflexivity | apply alist_get_in; exact H].
Qed.

Lemma jar_facts_nodup : forall j, wf_jar j -> NoDup (jar_facts j).
Proof.
  induction j as [|[K c] r IH]; intros [W1 W2]; simpl; [constructor|].
  simpl in W1. inversion W1 as [|? ? Hni Hr]; subst.
  apply NoDup_app_intro.
  - apply NoDup_map_inv with (f := fun t : nfact => snd (fst t)). rewrite map_map. simpl.
    apply W2. simpl. left. reflexivity.
  - apply IH. split; [exact Hr | intros c' Hc'; apply W2; simpl; right; exact Hc'].
  - intros x Hx Hx'. apply in_map_iff in Hx. destruct Hx as [[n v] [Heq _]]. simpl in Heq. subst x.
    unfold jar_facts in Hx'. apply in_flat_map in Hx'. destruct Hx' as [[K' c'] [Hin Hm]].
    simpl in Hm. apply in_map_iff in Hm. destruct Hm as [[n' v'] [Heq _]]. simpl in Heq.
    inversion Heq; subst. apply Hni. change K with (fst (K, c')). apply in_map. exact Hin.
Qed.

(* latest-wins on fact lists, with keys compared by equality *)
Fixpoint live_n (l : list nfact) : list nfact :=
  match l with
  | [] => []
  | f :: r => if existsb (fun g => key_eqb (fst f) (fst g)) r then live_n r else f :: live_n r
  end.

Lemma exists_key : forall (r : list nfact) k,
  existsb (fun g => key_eqb k (fst g)) r = true <-> In k (map fst r).
Proof.
  intros r k. rewrite existsb_exists, in_map_iff. split.
  - intros [g [Hin He]]. apply key_eqb_eq in He. exists g. auto.
  - intros [g [He Hin]]. exists g. split; [exact Hin | apply key_eqb_eq; auto].
Qed.

Lemma latest_none : forall l k, latest l k = None <-> ~ In k (map fst l).
Proof.
  induction l as [|f r IH]; simpl; intro k.
  - split; auto.
  - destruct (latest r k) eqn:E.
    + split; [discriminate|]. intro H. exfalso.
      assert (~ In k (map fst r)) by tauto. apply IH in H0. congruence.
    + destruct (key_eqb k (fst f)) eqn:Ek.
      * apply key_eqb_eq in Ek. split; [discriminate | intro H; exfalso; apply H; auto].
      * split; [|reflexivity]. intros _ [H|H].
        -- subst k. assert (key_eqb (fst f) (fst f) = true) by (apply key_eqb_eq; reflexivity). congruence.
        -- apply IH in E. contradiction.
Qed.

Lemma latest_in : forall l k v, latest l k = Some v -> In (k, v) l.
Proof.
  induction l as [|f r IH]; simpl; intros k v H; [discriminate|].
  destruct (latest r k) eqn:E.
  - inversion H; subst. right. apply IH. exact E.
  - destruct (key_eqb k (fst f)) eqn:Ek; [|discriminate].
    apply key_eqb_eq in Ek. inversion H; subst. left. destruct f; reflexivity.
Qed.

Lemma live_n_spec : forall l k v, In (k, v) (live_n l) <-> latest l k = Some v.
Proof.
  induction l as [|[kf vf] r IH]; simpl; intros k v.
  - split; [intros [] | discriminate].
  - destruct (existsb (fun g => key_eqb kf (fst g)) r) eqn:Ex.
    + apply exists_key in Ex. rewrite IH. destruct (latest r k) eqn:E; [tauto|].
      destruct (key_eqb k kf) eqn:Ek; [|tauto].
      apply key_eqb_eq in Ek. subst k. apply latest_none in E. contradiction.
    + assert (Hn : ~ In kf (map fst r)).
      { intro H. apply exists_key in H. congruence. }
      simpl. rewrite IH. destruct (latest r k) eqn:E.
      * split; [|auto]. intros [H|H]; [|exact H]. inversion H; subst.
        apply latest_in in E. exfalso. apply Hn. change k with (fst (k, s)). apply in_map. exact E.
      * destruct (key_eqb k kf) eqn:Ek.
        -- apply key_eqb_eq in Ek. subst k. split.
           ++ intros [H|H]; [inversion H; reflexivity | discriminate].
           ++ intro H. inversion H. auto.
        -- split; [|discriminate]. intros [H|H]; [|discriminate]. inversion H; subst.
           assert (key_eqb k k = true) by (apply key_eqb_eq; reflexivity). congruence.
Qed.

Lemma live_n_nodup : forall l, NoDup (live_n l).
Proof.
  induction l as [|[kf vf] r IH]; simpl; [constructor|].
  destruct (existsb (fun g => key_eqb kf (fst g)) r) eqn:Ex; [exact IH|].
  constructor; [|exact IH]. intro H. apply live_n_spec, latest_in in H.
  assert (In kf (map fst r)) by (change kf with (fst (kf, vf)); apply in_map; exact H).
  apply exists_key in H0. simpl in Ex. congruence.
Qed.

(* the jar built from a list of facts holds exactly the live facts *)
Lemma jar_facts_perm : forall fs, Permutation (jar_facts (fold_left jar_put fs [])) (live_n fs).
Proof.
  intro fs. pose proof (fold_put_wf fs [] wf_jar_nil) as W.
  apply NoDup_Permutation.
  - apply jar_facts_nodup. exact W.
  - apply live_n_nodup.
  - intros [[K n] v]. rewrite (in_jar_facts _ K n v W), live_n_spec, jlookup_fold.
    unfold jlookup at 1. simpl. destruct (latest fs (K, n)); tauto.
Qed.

(* ------------------------------------------------------------------------------------------ *)
(* SimpleCookieJar.add is a sequence of single-fact stores *)

Definition norm (s : stored) : nfact := (domain_key (st_dom s), st_name s, st_value s).

Definition tagged (K : str) (ms : list morsel) : list nfact :=
  map (fun m : morsel => (K, fst (fst m), snd (fst m))) ms.

Definition upd (c : cookie) (m : morsel) : cookie := alist_set (fst (fst m)) (snd (fst m)) c.

Lemma cookie_update_fold : forall ms c, cookie_update c ms = fold_left upd ms c.
Proof. induction ms as [|[[n v] d] r IH]; simpl; intro c; [reflexivity | apply IH]. Qed.

Lemma cookie_of_put_same : forall j K n v,
  cookie_of K (jar_put j (K, n, v)) = alist_set n v (cookie_of K j).
Proof.
  intros. unfold jar_put. simpl. unfold cookie_of at 1. rewrite alist_get_set, str_eqb_refl.
  reflexivity.
Qed.

Lemma fold_put_same_key : forall K ms m j,
  fold_left jar_put (tagged K (m :: ms)) j = alist_set K (fold_left upd (m :: ms) (cookie_of K j)) j.
Proof.
  induction ms as [|m' ms IH]; intros m j.
  - reflexivity.
  - change (fold_left jar_put (tagged K (m :: m' :: ms)) j)
      with (fold_left jar_put (tagged K (m' :: ms)) (jar_put j (K, fst (fst m), snd (fst m)))).
    rewrite IH, cookie_of_put_same. unfold jar_put. simpl fst. simpl snd.
    rewrite alist_set_set. reflexivity.
Qed.

Lemma domain_key_norm : forall d, domain_key d = 46 :: dom_norm d.
Proof.
  intro d. unfold domain_key, dom_norm, s_dot. destruct d as [|c d]; [reflexivity|].
  change (starts_with [46] (c :: d)) with ((46 =? c) && true).
  change (lower (c :: d)) with (lower1 c :: lower d).
  destruct (Z.eqb_spec 46 c) as [E|E].
  - subst c. reflexivity.
  - change (lower ([46] ++ c :: d)) with (46 :: lower1 c :: lower d).
    destruct (Z.eqb_spec (lower1 c) 46) as [E'|E']; [|reflexivity].
    exfalso. unfold lower1 in E'. destruct ((65 <=? c) && (c <=? 90)) eqn:B.
    + apply andb_true_iff in B. destruct B as [B1 B2]. apply Z.leb_le in B1. lia.
    + congruence.
Qed.

Definition add_facts (all : list morsel) (m : morsel) : list nfact :=
  match named_domain m with Some d => tagged (domain_key d) all | None => [] end.

Lemma jar_add_one_facts : forall all j m, all <> [] ->
  jar_add_one all j m = fold_left jar_put (add_facts all m) j.
Proof.
  intros all j [[n v] d] Hne. unfold jar_add_one, add_facts, named_domain. simpl snd.
  destruct d as [[|c d]|]; try reflexivity. simpl truthy. cbv iota.
  destruct all as [|m0 all]; [contradiction|].
  rewrite fold_put_same_key, cookie_update_fold. f_equal.
  unfold cookie_of. destruct (alist_get (domain_key (c :: d)) j) as [[|x c']|]; reflexivity.
Qed.

Lemma stored_by_norm : forall r, map norm (stored_by r) = flat_map (add_facts r) r.
Proof.
  intro r. unfold stored_by. rewrite map_flat_map. apply flat_map_ext. intro m.
  unfold add_facts. destruct (named_domain m); [|reflexivity].
  unfold tagged. rewrite map_map. reflexivity.
Qed.

Lemma jar_add_facts : forall r j, jar_add j r = fold_left jar_put (map norm (stored_by r)) j.
Proof.
  intros r j. rewrite stored_by_norm. unfold jar_add. destruct r as [|m0 r0] eqn:Er; [reflexivity|].
  rewrite <- Er. assert (Hne : r <> []) by (rewrite Er; discriminate). clear Er.
  generalize r at 2 4 as ms. intro ms. revert j.
  induction ms as [|m ms IH]; intro j; [reflexivity|].
  simpl. rewrite fold_left_app, <- jar_add_one_facts by exact Hne. apply IH.
Qed.

Lemma history_facts : forall h j,
  fold_left jar_add h j = fold_left jar_put (map norm (stored_all h)) j.
Proof.
  induction h as [|r h IH]; intro j; [reflexivity|].
  unfold stored_all. simpl. rewrite map_app, fold_left_app, <- jar_add_facts. apply IH.
Qed.

(* ------------------------------------------------------------------------------------------ *)
(* latest-wins and scoping agree with the specification's *)

Lemma slot_norm : forall a b, key_eqb (fst (norm a)) (fst (norm b)) = same_slot a b.
Proof.
  intros a b. unfold norm, key_eqb, same_slot, same_domain. simpl fst. simpl snd.
  rewrite !domain_key_norm. reflexivity.
Qed.

Lemma exists_slot_norm : forall f r,
  existsb (fun x => key_eqb (fst (norm f)) (fst (norm x))) r = existsb (same_slot f) r.
Proof.
  intros f r. induction r as [|g r IHr]; [reflexivity|].
  cbn [existsb]. rewrite slot_norm, IHr. reflexivity.
Qed.

Lemma live_norm : forall fs, live_n (map norm fs) = map norm (live fs).
Proof.
  induction fs as [|f r IH]; [reflexivity|].
  cbn [map live live_n]. rewrite existsb_map, exists_slot_norm.
  destruct (existsb (same_slot f) r); cbn [map]; rewrite IH; reflexivity.
Qed.

Lemma match_covers : forall d host, domain_match (lower host) (domain_key d) = covers d host.
Proof.
  intros d host. unfold domain_match, covers. rewrite domain_key_norm. simpl tl. apply orb_comm.
Qed.

Definition sel_proj (f : nfact) : str * str := (snd (fst f), snd f).

Lemma jar_select_facts : forall j host,
  jar_select j host =
  map sel_proj (filter (fun f : nfact => domain_match (lower host) (fst (fst f))) (jar_facts j)).
Proof.
  intros j host. unfold jar_select, jar_facts. induction j as [|[K c] r IH]; [reflexivity|].
  cbn [flat_map]. rewrite filter_app, map_app, IH. f_equal. cbn [fst snd].
  destruct (domain_match (lower host) K) eqn:E.
  - clear IH. induction c as [|[n v] c IHc]; [reflexivity|]. simpl. rewrite E. simpl.
    unfold sel_proj at 1. simpl. f_equal. exact IHc.
  - clear IH. induction c as [|[n v] c IHc]; [reflexivity|]. simpl. rewrite E. exact IHc.
Qed.

(* what is selected for a host is, up to order, what the specification sends *)
Theorem select_perm : forall history host,
  Permutation (jar_select (jar_of_history history) host)
              (map (fun s => (st_name s, st_value s)) (sent history host)).
Proof.
  intros h host. unfold jar_of_history. rewrite history_facts, jar_select_facts.
  set (P := fun f : nfact => domain_match (lower host) (fst (fst f))).
  assert (E : map (fun s => (st_name s, st_value s)) (sent h host)
              = map sel_proj (filter P (map norm (live (stored_all h))))).
  { rewrite filter_map_comm, map_map. unfold sent. f_equal. apply filter_ext.
    intro s. unfold P, norm. simpl. symmetry. apply match_covers. }
  rewrite E. apply Permutation_map, Permutation_filter'.
  rewrite <- live_norm. apply jar_facts_perm.
Qed.

(* ------------------------------------------------------------------------------------------ *)
(* the header string *)

Lemma fmt_truthy : forall kv, truthy (fmt_cookie kv) = true.
Proof. intros [[|x n] v]; reflexivity. Qed.

Lemma filter_none_id : forall l, (forall x, In x l -> truthy x = true) -> filter_none l = l.
Proof.
  induction l as [|x l IH]; intro H; [reflexivity|]. unfold filter_none in *. simpl.
  rewrite (H x (or_introl eq_refl)). f_equal. apply IH. intros y Hy. apply H. right. exact Hy.
Qed.

Lemma sorted_fmt_truthy : forall l x, In x (sort_str (map fmt_cookie l)) -> truthy x = true.
Proof.
  intros l x H. apply (Permutation_in _ (sort_str_perm _)) in H. apply in_map_iff in H.
  destruct H as [kv [<- _]]. apply fmt_truthy.
Qed.

(* jar_get is the sorted join of the selected entries *)
Lemma jar_get_select : forall j host, host <> [] ->
  jar_get j host = join s_semi_sp (sort_str (map fmt_cookie (jar_select j host))).
Proof.
  intros j host H. unfold jar_get. destruct host; [contradiction|]. simpl truthy. cbv iota.
  rewrite filter_none_id; [reflexivity | apply sorted_fmt_truthy].
Qed.

Lemma jar_get_empty_host : forall j, jar_get j [] = [].
Proof. reflexivity. Qed.

Lemma join_snoc : forall sep l y, l <> [] -> join sep (l ++ [y]) = join sep l ++ sep ++ y.
Proof.
  induction l as [|x l IH]; intros y H; [contradiction|].
  destruct l as [|x2 l]; [reflexivity|].
  change (join sep ((x :: x2 :: l) ++ [y])) with (x ++ sep ++ join sep ((x2 :: l) ++ [y])).
  rewrite IH by discriminate.
  change (join sep (x :: x2 :: l)) with (x ++ sep ++ join sep (x2 :: l)).
  rewrite <- !app_assoc. reflexivity.
Qed.

Lemma join_truthy : forall sep x l, truthy x = true -> truthy (join sep (x :: l)) = true.
Proof. intros sep [|c x] l H; [discriminate|]. destruct l; reflexivity. Qed.

(* assembling server and caller cookies *)
Lemma header_assembly : forall (S : list str) (cc : option str),
  (forall x, In x S -> truthy x = true) ->
  (let cookie := join s_semi_sp (filter_none [join s_semi_sp S; opt_str cc]) in
   if truthy cookie then Some cookie else None)
  = match S ++ match cc with Some (c :: s) => [c :: s] | _ => [] end with
    | [] => None
    | parts => Some (join [59; 32] parts)
    end.
Proof.
  intros S cc HS. destruct S as [|x S].
  - destruct cc as [[|c s]|]; reflexivity.
  - assert (Tx : truthy x = true) by (apply HS; left; reflexivity).
    assert (Tj : truthy (join s_semi_sp (x :: S)) = true) by (apply join_truthy; exact Tx).
    cbv zeta. unfold filter_none. cbn [filter]. rewrite Tj.
    remember (join s_semi_sp (x :: S)) as J eqn:EJ.
    destruct cc as [[|c s]|]; cbn [opt_str truthy filter].
    + rewrite app_nil_r. cbn [join]. rewrite Tj. subst J. reflexivity.
    + change (match (x :: S) ++ [c :: s] with [] => None | parts => Some (join [59; 32] parts) end)
        with (Some (join s_semi_sp ((x :: S) ++ [c :: s]))).
      rewrite join_snoc by discriminate. rewrite <- EJ.
      change (join s_semi_sp [J; c :: s]) with (J ++ s_semi_sp ++ c :: s).
      destruct J as [|a J]; [discriminate|]. reflexivity.
    + rewrite app_nil_r. cbn [join]. rewrite Tj. subst J. reflexivity.
Qed.

(* ------------------------------------------------------------------------------------------ *)
(* C20 *)

(* Responses that name no Domain store nothing. *)
Theorem C20_no_domain_stores_nothing : forall (j : jar) (ms : list morsel),
  (forall m, In m ms -> snd m = None \/ snd m = Some []) -> jar_add j ms = j.
Proof.
  intros j ms. unfold jar_add. generalize ms at 2 as all. intros all.
  revert j. induction ms as [|m ms IH]; intros j H; [reflexivity|].
  simpl. assert (E : jar_add_one all j m = j).
  { unfold jar_add_one. destruct (H m (or_introl eq_refl)) as [-> | ->]; reflexivity. }
  rewrite E. apply IH. intros m' Hm'. apply H. right. exact Hm'.
Qed.

(* A cookie selected for a host was set, with that value, by a response of the history that
   named a domain covering the host. *)
Theorem C20_scope : forall (history : list (list morsel)) (host nm v : str),
  In (nm, v) (jar_select (jar_of_history history) host) ->
  exists response dm nm0 v0 d,
    In response history /\ In (nm, v, dm) response /\
    In (nm0, v0, Some d) response /\ d <> [] /\ covers d host = true.
Proof.
  intros h host nm v H.
  apply (Permutation_in _ (select_perm h host)) in H. apply in_map_iff in H.
  destruct H as [[[d n] w] [Heq Hs]]. unfold st_name, st_value in Heq. simpl in Heq.
  inversion Heq; subst n w. clear Heq.
  unfold sent in Hs. apply filter_In in Hs. destruct Hs as [Hl Hc]. simpl in Hc.
  assert (Hst : In (d, nm, v) (stored_all h)).
  { clear Hc. revert Hl. generalize (stored_all h). induction l as [|s r IH]; simpl; [tauto|].
    destruct (existsb (same_slot s) r); simpl; intuition. }
  unfold stored_all in Hst. apply in_flat_map in Hst. destruct Hst as [r [Hr Hin]].
  unfold stored_by in Hin. apply in_flat_map in Hin. destruct Hin as [[[n0 v0] d0] [Hm Hin]].
  unfold named_domain in Hin. simpl in Hin. destruct d0 as [[|c d0]|]; try contradiction.
  apply in_map_iff in Hin. destruct Hin as [[[n1 v1] d1] [Heq Hm1]]. simpl in Heq.
  inversion Heq; subst. exists r, d1, n0, v0, (c :: d0).
  repeat split; try assumption. discriminate.
Qed.

(* ... hence nothing is sent to a host that no named domain covers. *)
Corollary C20_never_outside : forall (history : list (list morsel)) (host : str),
  (forall response nm v d, In response history -> In (nm, v, Some d) response -> covers d host = false) ->
  jar_select (jar_of_history history) host = [] /\ jar_get (jar_of_history history) host = [].
Proof.
  intros h host H.
  assert (E : jar_select (jar_of_history h) host = []).
  { destruct (jar_select (jar_of_history h) host) as [|[nm v] l] eqn:E; [reflexivity|]. exfalso.
    destruct (C20_scope h host nm v) as (r & dm & n0 & v0 & d & Hr & _ & Hd & _ & Hc).
    - rewrite E. left. reflexivity.
    - rewrite (H r n0 v0 d Hr Hd) in Hc. discriminate. }
  split; [exact E|]. unfold jar_get. rewrite E. destruct host; reflexivity.
Qed.

(* The Cookie header is exactly the specification's, for every history, every non-empty host and
   every caller cookie; no restriction on the alphabet is needed. *)
Theorem C20_exact : forall (history : list (list morsel)) (host : str) (cc : option str),
  host <> [] ->
  cookie_header (jar_of_history history) host cc = spec_header history host cc.
Proof.
  intros h host cc Hh. unfold cookie_header, spec_header.
  rewrite jar_get_select by exact Hh. rewrite sorted_sort_str.
  assert (E : sort_str (map name_eq_value (sent h host))
            = sort_str (map fmt_cookie (jar_select (jar_of_history h) host))).
  { apply sort_str_perm_eq. apply Permutation_sym.
    eapply Permutation_trans; [apply Permutation_map, select_perm|].
    rewrite map_map. apply Permutation_refl. }
  rewrite E. apply header_assembly. apply sorted_fmt_truthy.
Qed.

(* The corner excluded by [host <> []]: SimpleCookieJar.get returns "" for an empty host before
   looking at the jar, while a Domain attribute "." (empty domain after the dot) "covers" the empty
   host.  Unreachable through connect() (parse_url rejects an empty host name). *)
Theorem C20_exact_empty_host_refuted :
  exists history cc, cookie_header (jar_of_history history) [] cc <> spec_header history [] cc.
Proof. exists [[([97], [49], Some [46])]], None. vm_compute. discriminate. Qed.

(* The same name stored under two covering domains is sent twice (once per domain), possibly with
   two different values: "latest value wins" holds per (domain, name) only. *)
Theorem C20_latest_wins_is_per_domain :
  exists history host,
    cookie_header (jar_of_history history) host None
    = Some [97; 61; 49; 59; 32; 97; 61; 50].     (* "a=1; a=2" *)
Proof.
  (* a=1; Domain=ex.com   then   a=2; Domain=sub.ex.com   then connect to sub.ex.com *)
  exists [[([97], [49], Some [101;120;46;99;111;109])];
          [([97], [50], Some [115;117;98;46;101;120;46;99;111;109])]],
         [115;117;98;46;101;120;46;99;111;109].
  vm_compute. reflexivity.
Qed.

(* read_headers: a second Set-Cookie line is appended after "; " *)
Lemma merge_set_cookie_first : forall v, merge_set_cookie None v = strip v.
Proof. reflexivity. Qed.
Lemma merge_set_cookie_next : forall c e v,
  merge_set_cookie (Some (c :: e)) v = (c :: e) ++ [59; 32] ++ strip v.
Proof. reflexivity. Qed.

(* ------------------------------------------------------------------------------------------ *)
(* concrete histories *)
From Coq Require Import String Ascii.

Definition lit (x : string) : str := map (fun a => Z.of_N (N_of_ascii a)) (list_ascii_of_string x).
Definition one (n v d : string) : list morsel := [(lit n, lit v, Some (lit d))].
Definition hdr (h : list (list morsel)) (host : string) : option str :=
  cookie_header (jar_of_history h) (lit host) None.
Definition SomeS (x : string) : option str := Some (lit x).

(* scope: the domain itself, a subdomain, and the look-alikes *)
Example ex_inside      : hdr [one "a" "1" "example.com"] "example.com" = SomeS "a=1".
Proof. vm_compute. reflexivity. Qed.
Example ex_subdomain   : hdr [one "a" "1" "example.com"] "x.y.example.com" = SomeS "a=1".
Proof. vm_compute. reflexivity. Qed.
Example ex_lookalike_1 : hdr [one "a" "1" ".example.com"] "badexample.com" = None.
Proof. vm_compute. reflexivity. Qed.
Example ex_lookalike_2 : hdr [one "a" "1" ".example.com"] "example.com.evil" = None.
Proof. vm_compute. reflexivity. Qed.
Example ex_parent      : hdr [one "a" "1" "sub.example.com"] "example.com" = None.
Proof. vm_compute. reflexivity. Qed.
Example ex_other       : hdr [one "a" "1" "example.com"] "other.org" = None.
Proof. vm_compute. reflexivity. Qed.
(* case: upper-case Domain, upper-case host *)
Example ex_upper_domain : hdr [one "a" "1" "EXAMPLE.Com"] "www.example.com" = SomeS "a=1".
Proof. vm_compute. reflexivity. Qed.
Example ex_upper_host   : hdr [one "a" "1" ".example.com"] "WWW.Example.COM" = SomeS "a=1".
Proof. vm_compute. reflexivity. Qed.
(* an upper-case Domain updates, not replaces, what the lower-case one stored *)
Example ex_upper_merges :
  hdr [one "a" "1" "example.com"; one "b" "2" "Example.COM"] "example.com" = SomeS "a=1; b=2".
Proof. vm_compute. reflexivity. Qed.
(* latest value wins, dotted and undotted domain are the same domain *)
Example ex_latest :
  hdr [one "a" "1" "example.com"; one "b" "1" "example.com"; one "a" "2" ".example.com"] "example.com"
  = SomeS "a=2; b=1".
Proof. vm_compute. reflexivity. Qed.
(* no Domain: nothing stored *)
Example ex_no_domain :
  jar_of_history [[(lit "a", lit "1", None)]; [(lit "b", lit "2", Some [])]] = [].
Proof. vm_compute. reflexivity. Qed.
(* every cookie of a response goes under the one domain it names *)
Example ex_all_morsels :
  hdr [[(lit "b", lit "2", None); (lit "a", lit "1", Some (lit "example.com"))]] "example.com" = SomeS "a=1; b=2".
Proof. vm_compute. reflexivity. Qed.
(* sorted as name=value strings; caller cookie last *)
Example ex_caller :
  cookie_header (jar_of_history [one "ab" "1" "ex.com"; one "a" "2" "ex.com"]) (lit "ex.com") (SomeS "z=9")
  = SomeS "a=2; ab=1; z=9".
Proof. vm_compute. reflexivity. Qed.
Example ex_caller_only :
  cookie_header (jar_of_history [one "a" "1" "ex.com"]) (lit "other.org") (SomeS "z=9") = SomeS "z=9".
Proof. vm_compute. reflexivity. Qed.
(* the sorting caveat: names "a" and "a+" sort as strings "a+=1" < "a=1", not by name *)
Example ex_sort_caveat :
  hdr [[(lit "a", lit "1", Some (lit "ex.com")); (lit "a+", lit "1", None)]] "ex.com" = SomeS "a+=1; a=1".
Proof. vm_compute. reflexivity. Qed.
(* the examples agree with the specification *)
Example ex_spec_latest :
  spec_header [one "a" "1" "example.com"; one "b" "1" "example.com"; one "a" "2" ".example.com"]
              (lit "example.com") None = SomeS "a=2; b=1".
Proof. vm_compute. reflexivity. Qed.
Example ex_spec_lookalike : spec_header [one "a" "1" ".example.com"] (lit "badexample.com") None = None.
Proof. vm_compute. reflexivity. Qed.
(* Set-Cookie merging *)
Example ex_merge :
  merge_set_cookie (Some (lit "a=1; Domain=ex.com")) (lit " b=2; Domain=other.org ")
  = lit "a=1; Domain=ex.com; b=2; Domain=other.org".
Proof. vm_compute. reflexivity. Qed.

Print Assumptions C20_scope.
Print Assumptions C20_never_outside.
Print Assumptions C20_no_domain_stores_nothing.
Print Assumptions C20_exact.
Print Assumptions C20_exact_empty_host_refuted.
Print Assumptions C20_latest_wins_is_per_domain.
Print Assumptions select_perm.
