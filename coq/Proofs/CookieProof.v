(* C20: the cookie jar model (Model/Cookie.v) against the specification (Spec/Cookie.v),
   for ALL histories of responses (induction over the history, no bound). *)
From Coq Require Import ZArith List Bool Lia Permutation Sorted.
From WS Require Import Base.Bytes Base.Str Model.Cookie Spec.Cookie.
Import ListNotations.
Open Scope Z_scope.

(* ------------------------------------------------------------------------------------------ *)
(* strings *)

Lemma str_eqb_eq : forall a b, str_eqb a b = true <-> a = b.
Proof.
  induction a as [|x a IH]; destruct b as [|y b]; simpl; split; intro H;
    try reflexivity; try discriminate.
  - apply andb_true_iff in H. destruct H as [H1 H2]. apply Z.eqb_eq in H1.
    apply IH in H2. subst. reflexivity.
  - inversion H; subst. apply andb_true_iff. split; [apply Z.eqb_refl | apply IH; reflexivity].
Qed.

Lemma str_eqb_refl : forall a, str_eqb a a = true.
Proof. intro a. apply str_eqb_eq. reflexivity. Qed.

Lemma str_eqb_neq : forall a b, str_eqb a b = false <-> a <> b.
Proof.
  intros a b. split.
  - intros H E. apply str_eqb_eq in E. congruence.
  - intro H. destruct (str_eqb a b) eqn:E; [apply str_eqb_eq in E; contradiction | reflexivity].
Qed.

Definition key_eqb (a b : str * str) : bool := str_eqb (fst a) (fst b) && str_eqb (snd a) (snd b).

Lemma key_eqb_eq : forall a b, key_eqb a b = true <-> a = b.
Proof.
  intros [a1 a2] [b1 b2]. unfold key_eqb. simpl. rewrite andb_true_iff, !str_eqb_eq.
  split; [intros [-> ->]; reflexivity | intro H; inversion H; auto].
Qed.

(* ------------------------------------------------------------------------------------------ *)
(* association lists *)

Lemma alist_get_set : forall A k k' (v : A) l,
  alist_get k (alist_set k' v l) = if str_eqb k k' then Some v else alist_get k l.
Proof.
  induction l as [|[k0 v0] r IH]; simpl.
  - reflexivity.
  - destruct (str_eqb k' k0) eqn:E0; simpl.
    + apply str_eqb_eq in E0. subst k0. destruct (str_eqb k k'); reflexivity.
    + rewrite IH. destruct (str_eqb k k0) eqn:E1; [|reflexivity].
      apply str_eqb_eq in E1. subst k0.
      destruct (str_eqb k k') eqn:E2; [|reflexivity].
      apply str_eqb_eq in E2. subst k'. rewrite str_eqb_refl in E0. discriminate.
Qed.

Lemma alist_set_set : forall A k (v w : A) l, alist_set k v (alist_set k w l) = alist_set k v l.
Proof.
  induction l as [|[k0 v0] r IH]; simpl.
  - rewrite str_eqb_refl. reflexivity.
  - destruct (str_eqb k k0) eqn:E; simpl.
    + rewrite str_eqb_refl. reflexivity.
    + rewrite E, IH. reflexivity.
Qed.

Lemma alist_set_keys_in : forall A k (v : A) l x,
  In x (map fst (alist_set k v l)) -> x = k \/ In x (map fst l).
Proof.
  induction l as [|[k0 v0] r IH]; simpl; intros x H.
  - destruct H as [H|[]]. auto.
  - destruct (str_eqb k k0) eqn:E; simpl in H.
    + destruct H as [H|H]; auto.
    + destruct H as [H|H]; auto. apply IH in H. tauto.
Qed.

Lemma alist_set_vals_in : forall A k (v : A) l x,
  In x (map snd (alist_set k v l)) -> x = v \/ In x (map snd l).
Proof.
  induction l as [|[k0 v0] r IH]; simpl; intros x H.
  - destruct H as [H|[]]. auto.
  - destruct (str_eqb k k0) eqn:E; simpl in H.
    + destruct H as [H|H]; auto.
    + destruct H as [H|H]; auto. apply IH in H. tauto.
Qed.

Lemma alist_set_nodup : forall A k (v : A) l,
  NoDup (map fst l) -> NoDup (map fst (alist_set k v l)).
Proof.
  induction l as [|[k0 v0] r IH]; simpl; intro H.
  - constructor; [intros [] | constructor].
  - inversion H as [|? ? Hn Hr]; subst. destruct (str_eqb k k0) eqn:E; simpl.
    + apply str_eqb_eq in E. subst k0. constructor; assumption.
    + constructor; [|apply IH; assumption].
      intro Hin. apply alist_set_keys_in in Hin. destruct Hin as [Hin|Hin]; [|contradiction].
      subst k0. rewrite str_eqb_refl in E. discriminate.
Qed.

Lemma alist_get_in : forall A k (v : A) l, alist_get k l = Some v -> In (k, v) l.
Proof.
  induction l as [|[k0 v0] r IH]; simpl; intro H; [discriminate|].
  destruct (str_eqb k k0) eqn:E.
  - apply str_eqb_eq in E. inversion H; subst. auto.
  - auto.
Qed.

Lemma alist_in_get : forall A k (v : A) l,
  NoDup (map fst l) -> In (k, v) l -> alist_get k l = Some v.
Proof.
  induction l as [|[k0 v0] r IH]; simpl; intros Hn H; [contradiction|].
  inversion Hn as [|? ? Hni Hr]; subst. destruct H as [H|H].
  - inversion H; subst. rewrite str_eqb_refl. reflexivity.
  - destruct (str_eqb k k0) eqn:E.
    + apply str_eqb_eq in E. subst k0. exfalso. apply Hni.
      change k with (fst (k, v)). apply in_map. assumption.
    + auto.
Qed.

(* ------------------------------------------------------------------------------------------ *)
(* generic list lemmas missing from the 8.16 library *)

Lemma NoDup_app_intro : forall A (l1 l2 : list A),
  NoDup l1 -> NoDup l2 -> (forall x, In x l1 -> ~ In x l2) -> NoDup (l1 ++ l2).
Proof.
  induction l1 as [|a l1 IH]; simpl; intros l2 H1 H2 Hd; [assumption|].
  inversion H1; subst. constructor.
  - rewrite in_app_iff. intros [H|H]; [contradiction | exact (Hd a (or_introl eq_refl) H)].
  - apply IH; auto.
Qed.

Lemma Permutation_filter' : forall A (f : A -> bool) l1 l2,
  Permutation l1 l2 -> Permutation (filter f l1) (filter f l2).
Proof.
  induction 1; simpl.
  - constructor.
  - destruct (f x); [constructor|]; assumption.
  - destruct (f x), (f y); try constructor; try apply Permutation_refl.
  - eapply Permutation_trans; eassumption.
Qed.

Lemma filter_map_comm : forall A B (g : A -> B) (p : B -> bool) l,
  filter p (map g l) = map g (filter (fun x => p (g x)) l).
Proof.
  induction l as [|a l IH]; simpl; [reflexivity|].
  destruct (p (g a)); simpl; rewrite IH; reflexivity.
Qed.

Lemma map_flat_map : forall A B C (g : B -> C) (f : A -> list B) l,
  map g (flat_map f l) = flat_map (fun x => map g (f x)) l.
Proof.
  induction l as [|a l IH]; simpl; [reflexivity|]. rewrite map_app, IH. reflexivity.
Qed.

Lemma existsb_map : forall A B (g : A -> B) (p : B -> bool) l,
  existsb p (map g l) = existsb (fun x => p (g x)) l.
Proof. induction l as [|a l IH]; simpl; [reflexivity|]. rewrite IH. reflexivity. Qed.

(* ------------------------------------------------------------------------------------------ *)
(* Python's string order and sorted() *)

Definition sle (a b : str) : Prop := str_leb a b = true.

Lemma str_leb_total : forall a b, str_leb a b = true \/ str_leb b a = true.
Proof.
  induction a as [|x a IH]; destruct b as [|y b]; simpl; auto.
  destruct (Z.ltb_spec x y); auto. destruct (Z.ltb_spec y x); auto.
Qed.

Lemma str_leb_trans : forall a b c, str_leb a b = true -> str_leb b c = true -> str_leb a c = true.
Proof.
  induction a as [|x a IH]; destruct b as [|y b]; destruct c as [|z c]; simpl; intros H1 H2;
    try reflexivity; try discriminate.
  destruct (Z.ltb_spec x y); destruct (Z.ltb_spec y x); destruct (Z.ltb_spec y z);
    destruct (Z.ltb_spec z y); destruct (Z.ltb_spec x z); destruct (Z.ltb_spec z x);
    try reflexivity; try discriminate; try lia; eauto.
Qed.

Lemma str_leb_antisym : forall a b, str_leb a b = true -> str_leb b a = true -> a = b.
Proof.
  induction a as [|x a IH]; destruct b as [|y b]; simpl; intros H1 H2;
    try reflexivity; try discriminate.
  destruct (Z.ltb_spec x y); destruct (Z.ltb_spec y x); try discriminate; try lia.
  assert (x = y) by lia. subst. f_equal. auto.
Qed.

Lemma insert_str_perm : forall x l, Permutation (insert_str x l) (x :: l).
Proof.
  induction l as [|y r IH]; simpl; [apply Permutation_refl|].
  destruct (str_leb x y); [apply Permutation_refl|].
  eapply Permutation_trans; [apply perm_skip; exact IH | apply perm_swap].
Qed.

Lemma sort_str_perm : forall l, Permutation (sort_str l) l.
Proof.
  induction l as [|x r IH]; simpl; [constructor|].
  eapply Permutation_trans; [apply insert_str_perm | apply perm_skip; exact IH].
Qed.

Lemma insert_str_sorted : forall x l, StronglySorted sle l -> StronglySorted sle (insert_str x l).
Proof.
  induction l as [|y r IH]; simpl; intro H.
  - constructor; constructor.
  - inversion H as [|? ? Hr Hall]; subst. destruct (str_leb x y) eqn:E.
    + constructor; [assumption|]. constructor; [exact E|].
      rewrite Forall_forall in *. intros z Hz. eapply str_leb_trans; [exact E | apply Hall; exact Hz].
    + constructor; [apply IH; assumption|].
      rewrite Forall_forall in *. intros z Hz.
      apply (Permutation_in _ (insert_str_perm x r)) in Hz. destruct Hz as [Hz|Hz].
      * subst z. destruct (str_leb_total x y) as [T|T]; [congruence | exact T].
      * apply Hall; exact Hz.
Qed.

Lemma sort_str_sorted : forall l, StronglySorted sle (sort_str l).
Proof. induction l; simpl; [constructor | apply insert_str_sorted; assumption]. Qed.

Lemma sorted_perm_unique : forall l1 l2,
  StronglySorted sle l1 -> StronglySorted sle l2 -> Permutation l1 l2 -> l1 = l2.
Proof.
  induction l1 as [|a l1 IH]; intros l2 S1 S2 P.
  - apply Permutation_nil in P. subst. reflexivity.
  - destruct l2 as [|b l2]; [apply Permutation_sym, Permutation_nil in P; discriminate|].
    inversion S1 as [|? ? S1' A1]; inversion S2 as [|? ? S2' A2]; subst.
    rewrite Forall_forall in A1, A2.
    assert (a = b).
    { assert (Hab : sle a b).
      { assert (In b (a :: l1)) by (apply (Permutation_in _ (Permutation_sym P)); left; reflexivity).
        destruct H as [H|H]; [subst; destruct (str_leb_total b b); assumption | apply A1; exact H]. }
      assert (Hba : sle b a).
      { assert (In a (b :: l2)) by (apply (Permutation_in _ P); left; reflexivity).
        destruct H as [H|H]; [subst; destruct (str_leb_total a a); assumption | apply A2; exact H]. }
      apply str_leb_antisym; assumption. }
    subst b. f_equal. apply IH; try assumption. eapply Permutation_cons_inv; exact P.
Qed.

Lemma sort_str_perm_eq : forall l1 l2, Permutation l1 l2 -> sort_str l1 = sort_str l2.
Proof.
  intros l1 l2 P. apply sorted_perm_unique; try apply sort_str_sorted.
  eapply Permutation_trans; [apply sort_str_perm|].
  eapply Permutation_trans; [exact P | apply Permutation_sym, sort_str_perm].
Qed.

(* the specification's order and sort are the same functions *)
Lemma str_le_leb : forall a b, str_le a b = str_leb a b.
Proof.
  unfold str_le. induction a as [|x a IH]; destruct b as [|y b]; simpl; try reflexivity.
  destruct (Z.compare_spec x y) as [E|L|G].
  - subst. rewrite Z.ltb_irrefl. apply IH.
  - apply Z.ltb_lt in L. rewrite L. reflexivity.
  - assert (x <? y = false) by (apply Z.ltb_ge; lia). rewrite H.
    apply Z.ltb_lt in G. rewrite G. reflexivity.
Qed.

Lemma sorted_sort_str : forall l, sorted l = sort_str l.
Proof.
  induction l as [|x r IH]; simpl; [reflexivity|]. rewrite IH.
  generalize (sort_str r). induction l as [|y l IHl]; simpl; [reflexivity|].
  rewrite str_le_leb, IHl. reflexivity.
Qed.

(* ------------------------------------------------------------------------------------------ *)
(* the jar as a store of facts ((domain key, name), value) *)

Definition nfact := (str * str * str)%type.          (* ((key, name), value) *)

Definition cookie_of (K : str) (j : jar) : cookie :=
  match alist_get K j with Some c => c | None => [] end.

Definition jar_put (j : jar) (f : nfact) : jar :=
  alist_set (fst (fst f)) (alist_set (snd (fst f)) (snd f) (cookie_of (fst (fst f)) j)) j.

Definition jlookup (j : jar) (K n : str) : option str :=
  match alist_get K j with Some c => alist_get n c | None => None end.

Definition jar_facts (j : jar) : list nfact :=
  flat_map (fun kc : str * cookie => map (fun nv : str * str => (fst kc, fst nv, snd nv)) (snd kc)) j.

Definition wf_jar (j : jar) : Prop :=
  NoDup (map fst j) /\ forall c, In c (map snd j) -> NoDup (map fst c).

Lemma wf_jar_nil : wf_jar [].
Proof. split; [constructor | intros c []]. Qed.

Lemma cookie_of_wf : forall j K, wf_jar j -> NoDup (map fst (cookie_of K j)).
Proof.
  intros j K [_ H]. unfold cookie_of. destruct (alist_get K j) eqn:E; [|constructor].
  apply H. apply alist_get_in in E. change c with (snd (K, c)). apply in_map. exact E.
Qed.

Lemma jar_put_wf : forall j f, wf_jar j -> wf_jar (jar_put j f).
Proof.
  intros j [[K n] v] W. pose proof (cookie_of_wf j K W) as Hc. destruct W as [W1 W2].
  unfold jar_put. simpl. split.
  - apply alist_set_nodup. exact W1.
  - intros c Hin. apply alist_set_vals_in in Hin. destruct Hin as [->|Hin]; [|auto].
    apply alist_set_nodup. exact Hc.
Qed.

Lemma fold_put_wf : forall fs j, wf_jar j -> wf_jar (fold_left jar_put fs j).
Proof. induction fs as [|f fs IH]; simpl; intros j W; [exact W | apply IH, jar_put_wf, W]. Qed.

Lemma jlookup_cookie_of : forall j K n, alist_get n (cookie_of K j) = jlookup j K n.
Proof. intros. unfold cookie_of, jlookup. destruct (alist_get K j); reflexivity. Qed.

Lemma jlookup_put : forall j f K n,
  jlookup (jar_put j f) K n = if key_eqb (K, n) (fst f) then Some (snd f) else jlookup j K n.
Proof.
  intros j [[K' n'] v'] K n. unfold jar_put, key_eqb. simpl. unfold jlookup at 1.
  rewrite alist_get_set. destruct (str_eqb K K') eqn:E; simpl.
  - apply str_eqb_eq in E. subst K'. rewrite alist_get_set, jlookup_cookie_of. reflexivity.
  - reflexivity.
Qed.

(* the last fact about a key *)
Fixpoint latest (fs : list nfact) (k : str * str) : option str :=
  match fs with
  | [] => None
  | f :: r => match latest r k with
              | Some v => Some v
              | None => if key_eqb k (fst f) then Some (snd f) else None
              end
  end.

Lemma jlookup_fold : forall fs j K n,
  jlookup (fold_left jar_put fs j) K n =
  match latest fs (K, n) with Some v => Some v | None => jlookup j K n end.
Proof.
  induction fs as [|f fs IH]; simpl; intros j K n; [reflexivity|].
  rewrite IH. destruct (latest fs (K, n)); [reflexivity|]. rewrite jlookup_put.
  destruct (key_eqb (K, n) (fst f)); reflexivity.
Qed.

Lemma in_jar_facts : forall j K n v, wf_jar j ->
  (In (K, n, v) (jar_facts j) <-> jlookup j K n = Some v).
Proof.
  intros j K n v [W1 W2]. unfold jar_facts, jlookup. rewrite in_flat_map. split.
  - intros [[K' c] [Hin Hm]]. simpl in Hm. apply in_map_iff in Hm.
    destruct Hm as [[n' v'] [Heq Hnv]]. simpl in Heq. inversion Heq; subst.
    rewrite (alist_in_get _ _ _ _ W1 Hin). apply alist_in_get; [|exact Hnv].
    apply W2. change c with (snd (K, c)). apply in_map. exact Hin.
  - destruct (alist_get K j) eqn:E; [|discriminate]. intro H.
    exists (K, c). split; [apply alist_get_in; exact E|]. simpl.
    apply in_map_iff. exists (n, v). split; [reflexivity | apply alist_get_in; exact H].
Qed.

Lemma jar_facts_nodup : forall j, wf_jar j -> NoDup (jar_facts j).
Proof.
  induction j as [|[K c] r IH]; intros [W1 W2]; simpl; [constructor|].
  simpl in W1. inversion W1 as [|? ? Hni Hr]; subst.
  apply NoDup_app_intro.
  - apply NoDup_map_inv with (f := fun t : nfact => snd (fst t)). rewrite map_map. simpl.
    apply W2. simpl. left. reflexivity.
  - apply IH. split; [exact Hr | intros c' Hc'; apply W2; simpl; right; exact Hc'].
  - intros x Hx Hx'. apply in_map_iff in Hx. destruct Hx as [[n v] [Heq _]]. simpl in Heq. subst x.
    unfold jar_facts in Hx'. apply in_flat_map in Hx'. destruct Hx' as [[K' c'] [Hin Hm]].
    simpl in Hm. apply in_map_iff in Hm. destruct Hm as [[n' v'] [Heq _]]. simpl in Heq.
    inversion Heq; subst. apply Hni. change K with (fst (K, c')). apply in_map. exact Hin.
Qed.

(* latest-wins on fact lists, with keys compared by equality *)
Fixpoint live_n (l : list nfact) : list nfact :=
  match l with
  | [] => []
  | f :: r => if existsb (fun g => key_eqb (fst f) (fst g)) r then live_n r else f :: live_n r
  end.

Lemma exists_key : forall (r : list nfact) k,
  existsb (fun g => key_eqb k (fst g)) r = true <-> In k (map fst r).
Proof.
  intros r k. rewrite existsb_exists, in_map_iff. split.
  - intros [g [Hin He]]. apply key_eqb_eq in He. exists g. auto.
  - intros [g [He Hin]]. exists g. split; [exact Hin | apply key_eqb_eq; auto].
Qed.

Lemma latest_none : forall l k, latest l k = None <-> ~ In k (map fst l).
Proof.
  induction l as [|f r IH]; simpl; intro k.
  - split; auto.
  - destruct (latest r k) eqn:E.
    + split; [discriminate|]. intro H. exfalso.
      assert (~ In k (map fst r)) by tauto. apply IH in H0. congruence.
    + destruct (key_eqb k (fst f)) eqn:Ek.
      * apply key_eqb_eq in Ek. split; [discriminate | intro H; exfalso; apply H; auto].
      * split; [|reflexivity]. intros _ [H|H].
        -- subst k. assert (key_eqb (fst f) (fst f) = true) by (apply key_eqb_eq; reflexivity). congruence.
        -- apply IH in E. contradiction.
Qed.

Lemma latest_in : forall l k v, latest l k = Some v -> In (k, v) l.
Proof.
  induction l as [|f r IH]; simpl; intros k v H; [discriminate|].
  destruct (latest r k) eqn:E.
  - inversion H; subst. right. apply IH. exact E.
  - destruct (key_eqb k (fst f)) eqn:Ek; [|discriminate].
    apply key_eqb_eq in Ek. inversion H; subst. left. destruct f; reflexivity.
Qed.

Lemma live_n_spec : forall l k v, In (k, v) (live_n l) <-> latest l k = Some v.
Proof.
  induction l as [|[kf vf] r IH]; simpl; intros k v.
  - split; [intros [] | discriminate].
  - destruct (existsb (fun g => key_eqb kf (fst g)) r) eqn:Ex.
    + apply exists_key in Ex. rewrite IH. destruct (latest r k) eqn:E; [tauto|].
      destruct (key_eqb k kf) eqn:Ek; [|tauto].
      apply key_eqb_eq in Ek. subst k. apply latest_none in E. contradiction.
    + assert (Hn : ~ In kf (map fst r)).
      { intro H. apply exists_key in H. congruence. }
      simpl. rewrite IH. destruct (latest r k) eqn:E.
      * split; [|auto]. intros [H|H]; [|exact H]. inversion H; subst.
        apply latest_in in E. exfalso. apply Hn. change k with (fst (k, s)). apply in_map. exact E.
      * destruct (key_eqb k kf) eqn:Ek.
        -- apply key_eqb_eq in Ek. subst k. split.
           ++ intros [H|H]; [inversion H; reflexivity | discriminate].
           ++ intro H. inversion H. auto.
        -- split; [|discriminate]. intros [H|H]; [|discriminate]. inversion H; subst.
           assert (key_eqb k k = true) by (apply key_eqb_eq; reflexivity). congruence.
Qed.

Lemma live_n_nodup : forall l, NoDup (live_n l).
Proof.
  induction l as [|[kf vf] r IH]; simpl; [constructor|].
  destruct (existsb (fun g => key_eqb kf (fst g)) r) eqn:Ex; [exact IH|].
  constructor; [|exact IH]. intro H. apply live_n_spec, latest_in in H.
  assert (In kf (map fst r)) by (change kf with (fst (kf, vf)); apply in_map; exact H).
  apply exists_key in H0. simpl in Ex. congruence.
Qed.

(* the jar built from a list of facts holds exactly the live facts *)
Lemma jar_facts_perm : forall fs, Permutation (jar_facts (fold_left jar_put fs [])) (live_n fs).
Proof.
  intro fs. pose proof (fold_put_wf fs [] wf_jar_nil) as W.
  apply NoDup_Permutation.
  - apply jar_facts_nodup. exact W.
  - apply live_n_nodup.
  - intros [[K n] v]. rewrite (in_jar_facts _ K n v W), live_n_spec, jlookup_fold.
    unfold jlookup at 1. simpl. destruct (latest fs (K, n)); tauto.
Qed.
