(* C01: the regenerated formatter produces the spec's canonical encoding, for every payload. *)
From Coq Require Import ZArith List Bool Lia ZifyBool.
From WS Require Import Base.Res Base.Bytes Base.Sweep Base.GenPrelude Spec.Frame Gen.GenAbnf
  Proofs.BytesLemmas Proofs.FrameCodec Proofs.MaskBigint Model.Send.
Import ListNotations.
Open Scope Z_scope.
Ltac Zify.zify_post_hook ::= Z.div_mod_to_equations.

Definition client_hdr (fin op : Z) : hdr :=
  {| h_fin := fin; h_rsv1 := 0; h_rsv2 := 0; h_rsv3 := 0; h_opcode := op |}.
Definition client_frame (fin op : Z) (key data : bytes) : wframe :=
  {| wh := client_hdr fin op; wkey := Some key; wpayload := data |}.

(* first header byte, for the 2 x 6 legal (fin, opcode) pairs *)
Lemma hdr_byte fin op : In fin [0; 1] -> In op OPCODES ->
  Z.lor (Z.lor (Z.lor (Z.lor (Z.shiftl fin 7) (Z.shiftl 0 6)) (Z.shiftl 0 5)) (Z.shiftl 0 4)) op
  = 128 * fin + 64 * 0 + 32 * 0 + 16 * 0 + op.
Proof.
  intros Hf Ho. unfold OPCODES, OPCODE_CONT, OPCODE_TEXT, OPCODE_BINARY, OPCODE_CLOSE, OPCODE_PING, OPCODE_PONG in Ho.
  cbn [In] in Hf, Ho.
  repeat (destruct Hf as [<-|Hf]; [repeat (destruct Ho as [<-|Ho]; [reflexivity|]); destruct Ho|]). destruct Hf.
Qed.

Lemma len7_sweep : forallb (fun n => Z.lor (Z.shiftl 1 7) n =? 128 + n) (zrange 126 0) = true.
Proof. vm_compute. reflexivity. Qed.
Lemma len7_byte n : 0 <= n < 126 -> Z.lor (Z.shiftl 1 7) n = 128 + n.
Proof. intro H. apply Z.eqb_eq. apply (forall_range _ _ _ len7_sweep). lia. Qed.

Lemma opcodes_range op : In op OPCODES -> 0 <= op < 16.
Proof.
  unfold OPCODES, OPCODE_CONT, OPCODE_TEXT, OPCODE_BINARY, OPCODE_CLOSE, OPCODE_PING, OPCODE_PONG.
  cbn [In]. intros H. repeat (destruct H as [<-|H]; [lia|]). destruct H.
Qed.

Lemma format_checks fin op : In fin [0; 1] -> In op OPCODES ->
  existsb (fun x => negb (existsb (Z.eqb x) [0; 1])) [fin; 0; 0; 0] = false /\
  negb (existsb (Z.eqb op) OPCODES) = false.
Proof.
  intros Hf Ho. split.
  - cbn [In] in Hf. repeat (destruct Hf as [<-|Hf]; [reflexivity|]). destruct Hf.
  - apply negb_false_iff. apply existsb_exists. exists op. split; [exact Ho|apply Z.eqb_refl].
Qed.

Theorem format_is_encode fin op data key :
  In fin [0; 1] -> In op OPCODES -> bytes_ok data -> zlen data < 2 ^ 63 ->
  bytes_ok key -> length key = 4%nat ->
  format_frame fin op data key = Ok (encode (client_frame fin op key data)).
Proof.
  intros Hf Ho Hd Hlen Hk Hk4.
  unfold format_frame, create_frame_fields, abnf_format.
  destruct (format_checks fin op Hf Ho) as [C1 C2]. rewrite C1, C2.
  pose proof (zlen_nonneg data) as Hn0. rewrite pow63 in Hlen. unfold LENGTH_63, LENGTH_7, LENGTH_16.
  replace (zlen data >=? 9223372036854775808) with false by lia.
  rewrite (hdr_byte fin op Hf Ho).
  unfold get_masked, abnf_mask. rewrite (mask_bigint_xor key data Hk Hk4 Hd).
  unfold encode, encode_with, client_frame, client_hdr. cbn [wh wkey wpayload h_fin h_rsv1 h_rsv2 h_rsv3 h_opcode].
  change (negb (negb (1 =? 0))) with false. cbv iota.
  destruct (zlen data <? 126) eqn:E1.
  - rewrite len7_byte by lia. cbn [app]. reflexivity.
  - destruct (zlen data <? 65536) eqn:E2.
    + change (Z.lor (Z.shiftl 1 7) 126) with (128 + 126). cbn [app]. rewrite <- ?app_assoc. reflexivity.
    + change (Z.lor (Z.shiftl 1 7) 127) with (128 + 127). cbn [app]. rewrite <- ?app_assoc. reflexivity.
Qed.

Lemma client_frame_wf fin op key data :
  In fin [0; 1] -> In op OPCODES -> bytes_ok data -> zlen data < 2 ^ 63 -> length key = 4%nat ->
  wf_frame (client_frame fin op key data).
Proof.
  intros Hf Ho Hd Hl Hk. unfold wf_frame, wf_hdr, client_frame, client_hdr, bit. cbn.
  cbn [In] in Hf. pose proof (opcodes_range op Ho).
  destruct Hf as [<-|[<-|[]]]; repeat split; auto; lia.
Qed.

(* C01_wellformed *)
Theorem format_wellformed fin op data key rest :
  In fin [0; 1] -> In op OPCODES -> bytes_ok data -> zlen data < 2 ^ 63 ->
  bytes_ok key -> length key = 4%nat ->
  exists w, format_frame fin op data key = Ok w /\
            decode (w ++ rest) = Frame (client_frame fin op key data) rest.
Proof.
  intros. eexists. split; [apply format_is_encode; assumption|].
  apply decode_encode. apply client_frame_wf; assumption.
Qed.

(* the frame's total length: header 2, extension 0/2/8, key 4, payload n *)
Lemma encode_length f :
  zlen (encode f) = 2 + (if zlen (wpayload f) <? 126 then 0 else if zlen (wpayload f) <? 65536 then 2 else 8)
                    + (match wkey f with Some k => zlen k | None => 0 end) + zlen (wpayload f).
Proof.
  unfold encode, encode_with. destruct (wkey f) as [k|]; destruct (zlen (wpayload f) <? 126);
    try destruct (zlen (wpayload f) <? 65536); cbn [app];
    repeat (rewrite zlen_cons || rewrite zlen_app); rewrite ?be_encode_zlen, ?xor_cyc_zlen;
    change (Z.of_nat 2) with 2; change (Z.of_nat 8) with 8; lia.
Qed.

(* ---- the write loop (also used by C12) ---- *)
Lemma send_loop_wire fuel data accept wire wire' acc' :
  (length data <= fuel)%nat ->
  send_loop fuel data accept wire = Some (wire', acc') ->
  concat wire' = concat wire ++ data.
Proof.
  revert data accept wire. induction fuel as [|k IH]; intros data accept wire Hf H.
  - destruct data; [|cbn in Hf; lia]. cbn in H. inversion H; subst. now rewrite app_nil_r.
  - destruct data as [|d ds]; [cbn in H; inversion H; subst; now rewrite app_nil_r|].
    cbn [send_loop] in H.
    set (a := match accept with x :: _ => Z.max 1 (Z.min x (zlen (d :: ds))) | [] => zlen (d :: ds) end) in *.
    assert (Ha : 1 <= a <= zlen (d :: ds)).
    { unfold a. rewrite zlen_cons. pose proof (zlen_nonneg ds). destruct accept; lia. }
    apply IH in H.
    + rewrite H, concat_app. cbn [concat]. rewrite app_nil_r, <- app_assoc, ztake_zdrop. reflexivity.
    + pose proof (zdrop_zlen a (d :: ds) ltac:(lia)) as Hz.
      unfold zlen in *. cbn [length] in *. lia.
Qed.

Lemma send_loop_total fuel data accept wire :
  (length data <= fuel)%nat -> exists r, send_loop fuel data accept wire = Some r.
Proof.
  revert data accept wire. induction fuel as [|k IH]; intros data accept wire Hf.
  - destruct data; [eexists; reflexivity|cbn in Hf; lia].
  - destruct data as [|d ds]; [eexists; reflexivity|]. cbn [send_loop].
    set (a := match accept with x :: _ => Z.max 1 (Z.min x (zlen (d :: ds))) | [] => zlen (d :: ds) end).
    assert (Ha : 1 <= a <= zlen (d :: ds)).
    { unfold a. rewrite zlen_cons. pose proof (zlen_nonneg ds). destruct accept; lia. }
    apply IH.
    pose proof (zdrop_zlen a (d :: ds) ltac:(lia)) as Hz.
    unfold zlen in *. cbn [length] in *. lia.
Qed.

(* C01_count / C01_key_once / C12_short_writes *)
Theorem send_frame_correct fin op data k ks accept :
  In fin [0; 1] -> In op OPCODES -> bytes_ok data -> zlen data < 2 ^ 63 ->
  bytes_ok k -> length k = 4%nat ->
  exists wire acc',
    ws_send_frame fin op data (k :: ks) accept = Ok (zlen (concat wire), wire, ks, acc') /\
    concat wire = encode (client_frame fin op k data).
Proof.
  intros Hf Ho Hd Hl Hk Hk4. unfold ws_send_frame.
  rewrite (format_is_encode fin op data k Hf Ho Hd Hl Hk Hk4). cbn [bind].
  set (w := encode (client_frame fin op k data)).
  assert (Hfu : (length w <= S (length w))%nat) by (apply le_S, le_n).
  destruct (send_loop_total (S (length w)) w accept [] Hfu) as [[wire acc'] E].
  rewrite E. pose proof (send_loop_wire _ _ _ _ _ _ Hfu E) as Hw. cbn [concat app] in Hw.
  exists wire, acc'. rewrite Hw. split; reflexivity.
Qed.
