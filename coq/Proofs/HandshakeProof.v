(* Opening handshake (properties C09, C10): the response is accepted only when it is a valid
   upgrade response; the request sent is one well-formed HTTP/1.1 GET upgrade request whose
   headers are exactly what the options specify. *)
From Coq Require Import ZArith List Bool Lia ZifyBool.
From WS Require Import Base.Res Base.Bytes Base.Sweep Base.Str Base.StrInt Base.B64 Base.Sha1
  Gen.GenHandshake Model.Xport Model.Http Model.Handshake Spec.HttpReq.
Import ListNotations.
Open Scope Z_scope.

(* ================================================================================== *)
(* Facts about GENERATED definitions: everything below this block uses only these.     *)
(* ================================================================================== *)

Lemma VERSION_eq : VERSION = 13. Proof. reflexivity. Qed.
Lemma VERSION_str : str_of_Z VERSION = [49; 51]. Proof. reflexivity. Qed.
Lemma GUID_eq : GUID = GUID_. Proof. reflexivity. Qed.
Lemma HEADERS_TO_CHECK_eq :
  HEADERS_TO_CHECK = [(S_upgrade, S_websocket); (S_connection, S_upgrade)].
Proof. reflexivity. Qed.
Lemma host_port_omitted_eq p : host_port_omitted p = (p =? 80) || (p =? 443).
Proof. unfold host_port_omitted. simpl. now rewrite orb_false_r. Qed.
Lemma success_not_redirect st :
  existsb (Z.eqb st) SUCCESS_STATUSES = true ->
  existsb (Z.eqb st) SUPPORTED_REDIRECT_STATUSES = false -> st = 101.
Proof. unfold SUCCESS_STATUSES, SUPPORTED_REDIRECT_STATUSES. simpl. lia. Qed.
Lemma redirect_not_101 : existsb (Z.eqb 101) SUPPORTED_REDIRECT_STATUSES = false.
Proof. reflexivity. Qed.

(* bridging the model's and the spec's string constants *)
Lemma S_SEC_PROTO_eq : S_SEC_PROTO = S_sec_proto. Proof. reflexivity. Qed.
Lemma S_SEC_ACCEPT_eq : S_SEC_ACCEPT = S_sec_accept. Proof. reflexivity. Qed.
Lemma accept_value_eq key : accept_value key = expected_accept key.
Proof. unfold accept_value, expected_accept. now rewrite GUID_eq. Qed.

(* ================================================================================== *)
(* Part 1 : response acceptance (C09)                                                  *)
(* ================================================================================== *)

Lemma tokens_eq v : map (fun t => lower (strip t)) (split_all 44 v) = tokens v.
Proof. reflexivity. Qed.

Theorem validate_sound : forall hs key subs sub,
  hs_validate hs key subs = (true, sub) ->
  response_accepts 101 hs key subs = true /\
  (subs = [] -> sub = None) /\
  (subs <> [] -> exists v, alist_get S_sec_proto hs = Some v /\ sub = Some (lower v)).
Proof.
  intros hs key subs sub. unfold hs_validate, response_accepts.
  rewrite HEADERS_TO_CHECK_eq, S_SEC_PROTO_eq, S_SEC_ACCEPT_eq, accept_value_eq.
  cbn [forallb fst snd]. unfold tokens.
  change (101 =? 101) with true. cbn [andb].
  destruct (alist_get S_upgrade hs) as [[|c1 r1]|]; try (cbn [andb negb]; discriminate).
  destruct (mem_str S_websocket (map _ (split_all 44 (c1 :: r1)))); try (cbn [andb negb]; discriminate).
  destruct (alist_get S_connection hs) as [[|c2 r2]|]; try (cbn [andb negb]; discriminate).
  destruct (mem_str S_upgrade (map _ (split_all 44 (c2 :: r2)))); try (cbn [andb negb]; discriminate).
  cbn [andb negb].
  destruct subs as [|s0 subs'].
  - destruct (alist_get S_sec_accept hs) as [[|c3 r3]|]; try discriminate.
    destruct (str_eqb (c3 :: r3) (expected_accept key)); try discriminate.
    intros H; inversion H; subst. repeat split; auto. intros; congruence.
  - destruct (alist_get S_sec_proto hs) as [[|c4 r4]|]; try discriminate.
    destruct (mem_str (lower (c4 :: r4)) (map lower (s0 :: subs'))); try discriminate.
    destruct (alist_get S_sec_accept hs) as [[|c3 r3]|]; try discriminate.
    destruct (str_eqb (c3 :: r3) (expected_accept key)); try discriminate.
    intros H; inversion H; subst. repeat split; auto.
    + intros; discriminate.
    + intros _. eexists; split; reflexivity.
Qed.

(* The digest is never empty, so an empty Sec-WebSocket-Accept value (which `if not result`
   rejects) is rejected by the specification too. *)
Lemma sha1_nonempty msg : sha1 msg <> [].
Proof.
  unfold sha1. cbv zeta.
  match goal with |- context [fold_left ?f ?l ?i] =>
    destruct (fold_left f l i) as [[[[h0 h1] h2] h3] h4] end.
  change (be_encode 4 h0) with (be_encode 3 (h0 / 256) ++ [h0 mod 256]).
  intros H. apply app_eq_nil in H. destruct H as [H _].
  apply app_eq_nil in H. destruct H as [_ H]. discriminate H.
Qed.

Lemma b64_encode_nonempty l : l <> [] -> b64_encode l <> [].
Proof. destruct l as [|a [|b [|c r]]]; cbn [b64_encode]; congruence. Qed.

Lemma expected_accept_nonempty key : expected_accept key <> [].
Proof. unfold expected_accept. apply b64_encode_nonempty, sha1_nonempty. Qed.

(* The one corner on which `_validate` is stricter than the specification: subprotocols were
   offered, one of them is the empty string, and the server answered an empty
   Sec-WebSocket-Protocol value (`if not subproto` treats it as missing). *)
Definition empty_subproto_corner (hs : list (str * str)) (subs : list str) : bool :=
  match subs with
  | [] => false
  | _ => match alist_get S_sec_proto hs with Some [] => true | _ => false end
  end.

Theorem validate_exact : forall hs key subs,
  fst (hs_validate hs key subs) =
  response_accepts 101 hs key subs && negb (empty_subproto_corner hs subs).
Proof.
  intros hs key subs. unfold hs_validate, response_accepts, empty_subproto_corner.
  rewrite HEADERS_TO_CHECK_eq, S_SEC_PROTO_eq, S_SEC_ACCEPT_eq, accept_value_eq.
  cbn [forallb fst snd]. unfold tokens.
  change (101 =? 101) with true. cbn [andb].
  destruct (alist_get S_upgrade hs) as [[|c1 r1]|]; try reflexivity.
  destruct (mem_str S_websocket (map _ (split_all 44 (c1 :: r1)))); try reflexivity.
  destruct (alist_get S_connection hs) as [[|c2 r2]|]; try reflexivity.
  destruct (mem_str S_upgrade (map _ (split_all 44 (c2 :: r2)))); try reflexivity.
  cbn [andb negb].
  pose proof (expected_accept_nonempty key) as Hne.
  destruct subs as [|s0 subs'].
  - destruct (alist_get S_sec_accept hs) as [[|c3 r3]|]; try reflexivity.
    + destruct (expected_accept key); [congruence|reflexivity].
    + destruct (str_eqb (c3 :: r3) (expected_accept key)); reflexivity.
  - destruct (alist_get S_sec_proto hs) as [[|c4 r4]|].
    + rewrite andb_false_r. reflexivity.
    + destruct (mem_str (lower (c4 :: r4)) (map lower (s0 :: subs'))).
      * destruct (alist_get S_sec_accept hs) as [[|c3 r3]|]; try reflexivity.
        -- destruct (expected_accept key); [congruence|reflexivity].
        -- destruct (str_eqb (c3 :: r3) (expected_accept key)); reflexivity.
      * rewrite andb_false_r. reflexivity.
    + rewrite andb_false_r. reflexivity.
Qed.

(* (1b) with the minimal extra hypothesis: not in that corner *)
Theorem validate_complete_partial : forall hs key subs,
  (subs <> [] -> alist_get S_sec_proto hs <> Some []) ->
  response_accepts 101 hs key subs = true -> fst (hs_validate hs key subs) = true.
Proof.
  intros hs key subs Hc H. rewrite validate_exact, H.
  unfold empty_subproto_corner. destruct subs as [|s0 r]; [reflexivity|].
  specialize (Hc ltac:(congruence)).
  match goal with |- context [alist_get ?k ?h] =>
    change (alist_get k h) with (alist_get S_sec_proto hs) end.
  destruct (alist_get S_sec_proto hs) as [[|c r']|]; try reflexivity.
  exfalso. apply Hc; reflexivity.
Qed.

Corollary validate_complete_no_subprotocols : forall hs key,
  response_accepts 101 hs key [] = true -> fst (hs_validate hs key []) = true.
Proof. intros. apply validate_complete_partial; auto. Qed.

(* the unrestricted statement (1b) is false: concrete counterexample *)
Definition cx_hs : list (str * str) :=
  [(S_upgrade, S_websocket); (S_connection, S_upgrade);
   (S_sec_accept, expected_accept []); (S_sec_proto, [])].
Theorem validate_complete_counterexample :
  response_accepts 101 cx_hs [] [[]] = true /\ fst (hs_validate cx_hs [] [[]]) = false.
Proof. split; vm_compute; reflexivity. Qed.
