(* Opening handshake (properties C09, C10): the response is accepted only when it is a valid
   upgrade response; the request sent is one well-formed HTTP/1.1 GET upgrade request whose
   headers are exactly what the options specify. *)
From Coq Require Import ZArith List Bool Lia ZifyBool.
From WS Require Import Base.Res Base.Bytes Base.Sweep Base.Str Base.StrInt Base.B64 Base.Sha1
  Gen.GenHandshake Model.Xport Model.Http Model.Handshake Spec.HttpReq.
Import ListNotations.
Open Scope Z_scope.

(* ================================================================================== *)
(* Facts about GENERATED definitions: everything below this block uses only these.     *)
(* ================================================================================== *)

Lemma VERSION_eq : VERSION = 13. Proof. reflexivity. Qed.
Lemma VERSION_str : str_of_Z VERSION = [49; 51]. Proof. reflexivity. Qed.
Lemma GUID_eq : GUID = GUID_. Proof. reflexivity. Qed.
Lemma HEADERS_TO_CHECK_eq :
  HEADERS_TO_CHECK = [(S_upgrade, S_websocket); (S_connection, S_upgrade)].
Proof. reflexivity. Qed.
Lemma host_port_omitted_eq p : host_port_omitted p = (p =? 80) || (p =? 443).
Proof. unfold host_port_omitted. simpl. now rewrite orb_false_r. Qed.
Lemma success_not_redirect st :
  existsb (Z.eqb st) SUCCESS_STATUSES = true ->
  existsb (Z.eqb st) SUPPORTED_REDIRECT_STATUSES = false -> st = 101.
Proof. unfold SUCCESS_STATUSES, SUPPORTED_REDIRECT_STATUSES. simpl. lia. Qed.
Lemma redirect_not_101 : existsb (Z.eqb 101) SUPPORTED_REDIRECT_STATUSES = false.
Proof. reflexivity. Qed.

(* bridging the model's and the spec's string constants *)
Lemma S_SEC_PROTO_eq : S_SEC_PROTO = S_sec_proto. Proof. reflexivity. Qed.
Lemma S_SEC_ACCEPT_eq : S_SEC_ACCEPT = S_sec_accept. Proof. reflexivity. Qed.
Lemma accept_value_eq key : accept_value key = expected_accept key.
Proof. unfold accept_value, expected_accept. now rewrite GUID_eq. Qed.

(* ================================================================================== *)
(* Part 1 : response acceptance (C09)                                                  *)
(* ================================================================================== *)

Lemma tokens_eq v : map (fun t => lower (strip t)) (split_all 44 v) = tokens v.
Proof. reflexivity. Qed.

Theorem validate_sound : forall hs key subs sub,
  hs_validate hs key subs = (true, sub) ->
  response_accepts 101 hs key subs = true /\
  (subs = [] -> sub = None) /\
  (subs <> [] -> exists v, alist_get S_sec_proto hs = Some v /\ sub = Some (lower v)).
Proof.
  intros hs key subs sub. unfold hs_validate, response_accepts.
  rewrite HEADERS_TO_CHECK_eq, S_SEC_PROTO_eq, S_SEC_ACCEPT_eq, accept_value_eq.
  cbn [forallb fst snd]. unfold tokens.
  change (101 =? 101) with true. cbn [andb].
  destruct (alist_get S_upgrade hs) as [[|c1 r1]|]; try (cbn [andb negb]; discriminate).
  destruct (mem_str S_websocket (map _ (split_all 44 (c1 :: r1)))); try (cbn [andb negb]; discriminate).
  destruct (alist_get S_connection hs) as [[|c2 r2]|]; try (cbn [andb negb]; discriminate).
  destruct (mem_str S_upgrade (map _ (split_all 44 (c2 :: r2)))); try (cbn [andb negb]; discriminate).
  cbn [andb negb].
  destruct subs as [|s0 subs'].
  - destruct (alist_get S_sec_accept hs) as [[|c3 r3]|]; try discriminate.
    destruct (str_eqb (c3 :: r3) (expected_accept key)); try discriminate.
    intros H; inversion H; subst. repeat split; auto. intros; congruence.
  - destruct (alist_get S_sec_proto hs) as [[|c4 r4]|]; try discriminate.
    destruct (mem_str (lower (c4 :: r4)) (map lower (s0 :: subs'))); try discriminate.
    destruct (alist_get S_sec_accept hs) as [[|c3 r3]|]; try discriminate.
    destruct (str_eqb (c3 :: r3) (expected_accept key)); try discriminate.
    intros H; inversion H; subst. repeat split; auto.
    + intros; discriminate.
    + intros _. eexists; split; reflexivity.
Qed.

(* The digest is never empty, so an empty Sec-WebSocket-Accept value (which `if not result`
   rejects) is rejected by the specification too. *)
Lemma sha1_nonempty msg : sha1 msg <> [].
Proof.
  unfold sha1. cbv zeta.
  match goal with |- context [fold_left ?f ?l ?i] =>
    destruct (fold_left f l i) as [[[[h0 h1] h2] h3] h4] end.
  change (be_encode 4 h0) with (be_encode 3 (h0 / 256) ++ [h0 mod 256]).
  intros H. apply app_eq_nil in H. destruct H as [H _].
  apply app_eq_nil in H. destruct H as [_ H]. discriminate H.
Qed.

Lemma b64_encode_nonempty l : l <> [] -> b64_encode l <> [].
Proof. destruct l as [|a [|b [|c r]]]; cbn [b64_encode]; congruence. Qed.

Lemma expected_accept_nonempty key : expected_accept key <> [].
Proof. unfold expected_accept. apply b64_encode_nonempty, sha1_nonempty. Qed.

(* The one corner on which `_validate` is stricter than the specification: subprotocols were
   offered, one of them is the empty string, and the server answered an empty
   Sec-WebSocket-Protocol value (`if not subproto` treats it as missing). *)
Definition empty_subproto_corner (hs : list (str * str)) (subs : list str) : bool :=
  match subs with
  | [] => false
  | _ => match alist_get S_sec_proto hs with Some [] => true | _ => false end
  end.

Theorem validate_exact : forall hs key subs,
  fst (hs_validate hs key subs) =
  response_accepts 101 hs key subs && negb (empty_subproto_corner hs subs).
Proof.
  intros hs key subs. unfold hs_validate, response_accepts, empty_subproto_corner.
  rewrite HEADERS_TO_CHECK_eq, S_SEC_PROTO_eq, S_SEC_ACCEPT_eq, accept_value_eq.
  cbn [forallb fst snd]. unfold tokens.
  change (101 =? 101) with true. cbn [andb].
  destruct (alist_get S_upgrade hs) as [[|c1 r1]|]; try reflexivity.
  destruct (mem_str S_websocket (map _ (split_all 44 (c1 :: r1)))); try reflexivity.
  destruct (alist_get S_connection hs) as [[|c2 r2]|]; try reflexivity.
  destruct (mem_str S_upgrade (map _ (split_all 44 (c2 :: r2)))); try reflexivity.
  cbn [andb negb].
  pose proof (expected_accept_nonempty key) as Hne.
  destruct subs as [|s0 subs'].
  - destruct (alist_get S_sec_accept hs) as [[|c3 r3]|]; try reflexivity.
    + destruct (expected_accept key); [congruence|reflexivity].
    + destruct (str_eqb (c3 :: r3) (expected_accept key)); reflexivity.
  - destruct (alist_get S_sec_proto hs) as [[|c4 r4]|].
    + rewrite andb_false_r. reflexivity.
    + destruct (mem_str (lower (c4 :: r4)) (map lower (s0 :: subs'))).
      * destruct (alist_get S_sec_accept hs) as [[|c3 r3]|]; try reflexivity.
        -- destruct (expected_accept key); [congruence|reflexivity].
        -- destruct (str_eqb (c3 :: r3) (expected_accept key)); reflexivity.
      * rewrite andb_false_r. reflexivity.
    + rewrite andb_false_r. reflexivity.
Qed.

(* (1b) with the minimal extra hypothesis: not in that corner *)
Theorem validate_complete_partial : forall hs key subs,
  (subs <> [] -> alist_get S_sec_proto hs <> Some []) ->
  response_accepts 101 hs key subs = true -> fst (hs_validate hs key subs) = true.
Proof.
  intros hs key subs Hc H. rewrite validate_exact, H.
  unfold empty_subproto_corner. destruct subs as [|s0 r]; [reflexivity|].
  specialize (Hc ltac:(congruence)).
  match goal with |- context [alist_get ?k ?h] =>
    change (alist_get k h) with (alist_get S_sec_proto hs) end.
  destruct (alist_get S_sec_proto hs) as [[|c r']|]; try reflexivity.
  exfalso. apply Hc; reflexivity.
Qed.

Corollary validate_complete_no_subprotocols : forall hs key,
  response_accepts 101 hs key [] = true -> fst (hs_validate hs key []) = true.
Proof. intros. apply validate_complete_partial; auto. Qed.

(* the unrestricted statement (1b) is false: concrete counterexample *)
Definition cx_hs : list (str * str) :=
  [(S_upgrade, S_websocket); (S_connection, S_upgrade);
   (S_sec_accept, expected_accept []); (S_sec_proto, [])].
Theorem validate_complete_counterexample :
  response_accepts 101 cx_hs [] [[]] = true /\ fst (hs_validate cx_hs [] [[]]) = false.
Proof. split; vm_compute; reflexivity. Qed.

(* ---- (1c), (1d): what handshake() reports ---- *)
Theorem handshake_ok_only_if : forall x req key subs st hs sub x',
  handshake x req key subs = (Ok (HsOk st hs sub), x') ->
  st = 101 /\ response_accepts 101 hs key subs = true.
Proof.
  intros x req key subs st hs sub x' H. unfold handshake in H.
  destruct (read_headers (xlog x (IWrite req))) as [[h|e] x2]; [|discriminate H].
  set (st0 := match h_status h with Some z => z | None => -1 end) in *.
  destruct (existsb (Z.eqb st0) SUCCESS_STATUSES) eqn:Es; cbn [negb orb] in H.
  2:{ destruct (body_read (h_headers h) x2) as [[u|e] x3]; discriminate H. }
  destruct (match h_status h with None => true | _ => false end).
  { destruct (body_read (h_headers h) x2) as [[u|e] x3]; discriminate H. }
  destruct (existsb (Z.eqb st0) SUPPORTED_REDIRECT_STATUSES) eqn:Er; [discriminate H|].
  destruct (hs_validate (h_headers h) key subs) as [[|] sub0] eqn:Ev; [|discriminate H].
  inversion H; subst. split.
  - apply success_not_redirect; assumption.
  - apply validate_sound in Ev. tauto.
Qed.

Theorem handshake_redirect_is_not_ok : forall x req key subs st hs x',
  handshake x req key subs = (Ok (HsRedirect st hs), x') ->
  In st SUPPORTED_REDIRECT_STATUSES /\ st <> 101.
Proof.
  intros x req key subs st hs x' H. unfold handshake in H.
  destruct (read_headers (xlog x (IWrite req))) as [[h|e] x2]; [|discriminate H].
  set (st0 := match h_status h with Some z => z | None => -1 end) in *.
  destruct (negb (existsb (Z.eqb st0) SUCCESS_STATUSES)
            || match h_status h with None => true | _ => false end).
  { destruct (body_read (h_headers h) x2) as [[u|e] x3]; discriminate H. }
  destruct (existsb (Z.eqb st0) SUPPORTED_REDIRECT_STATUSES) eqn:Er.
  - inversion H; subst. split.
    + apply existsb_exists in Er. destruct Er as [y [Hy Ey]].
      apply Z.eqb_eq in Ey. subst y. exact Hy.
    + intros E. rewrite E in Er. rewrite redirect_not_101 in Er. discriminate Er.
  - destruct (hs_validate (h_headers h) key subs) as [[|] sub0]; discriminate H.
Qed.

(* ---- (1e), (1f): the transport log ---- *)
Definition reads (tail : list io) : Prop :=
  Forall (fun e => exists n, e = IRead n /\ n <= 16384) tail.
(* [x'] is [x] after some reads, each of at most 16384 bytes *)
Definition ext (x x' : xport) : Prop := exists tail, iolog x' = iolog x ++ tail /\ reads tail.

Lemma ext_refl x : ext x x.
Proof. exists []. rewrite app_nil_r. split; [reflexivity|constructor]. Qed.
Lemma ext_trans x y z : ext x y -> ext y z -> ext x z.
Proof.
  intros [t1 [E1 R1]] [t2 [E2 R2]]. exists (t1 ++ t2). rewrite E2, E1, app_assoc.
  split; [reflexivity|]. apply Forall_app; split; assumption.
Qed.

Lemma sock_recv_ext n x r x' : n <= 16384 -> sock_recv n x = (r, x') -> ext x x'.
Proof.
  intros Hn H. exists [IRead n]. split; [|repeat constructor; eauto].
  unfold sock_recv in H.
  destruct (inbox x) as [|[bs| |] rest];
    [ | destruct (zlen bs =? 0); [|destruct (zlen bs <=? n)] | | ];
    inversion H; reflexivity.
Qed.

Lemma recv_line_ext : forall fuel acc x r x', recv_line fuel acc x = (r, x') -> ext x x'.
Proof.
  induction fuel as [|k IH]; intros acc x r x' H; cbn [recv_line] in H.
  - inversion H; apply ext_refl.
  - destruct (sock_recv 1 x) as [[c|e] x1] eqn:E.
    + apply sock_recv_ext in E; [|lia].
      match type of H with context [if ?b then _ else _] => destruct b end.
      * inversion H; subst; assumption.
      * eapply ext_trans; [exact E|]. eapply IH; exact H.
    + inversion H; subst. eapply sock_recv_ext; [|exact E]. lia.
Qed.

Lemma read_headers_loop_ext : forall fuel h x r x',
  read_headers_loop fuel h x = (r, x') -> ext x x'.
Proof.
  induction fuel as [|k IH]; intros h x r x' H; cbn [read_headers_loop] in H.
  - inversion H; apply ext_refl.
  - destruct (recv_line _ [] x) as [[raw|e] x1] eqn:E; apply recv_line_ext in E.
    2:{ inversion H; subst; assumption. }
    eapply ext_trans; [exact E|]. clear E.
    repeat match type of H with
    | read_headers_loop _ _ _ = _ => fail 1
    | (_, _) = (_, _) => fail 1
    | context [if ?b then _ else _] => destruct b
    | context [match ?d with _ => _ end] => destruct d
    end;
    first [ inversion H; subst; apply ext_refl | eapply IH; exact H ].
Qed.

Lemma read_headers_ext x r x' : read_headers x = (r, x') -> ext x x'.
Proof. unfold read_headers. apply read_headers_loop_ext. Qed.

Lemma body_read_ext hs x r x' : body_read hs x = (r, x') -> ext x x'.
Proof.
  unfold body_read. intros H.
  destruct (alist_get S_CONTENT_LENGTH hs) as [[|c l]|]; try (inversion H; apply ext_refl).
  destruct (py_int (c :: l)) as [n|]; try (inversion H; apply ext_refl).
  destruct (0 <? n); try (inversion H; apply ext_refl).
  destruct (sock_recv (Z.min n 16384) x) as [[b|e] x1] eqn:E;
    apply sock_recv_ext in E; try lia.
  - inversion H; subst; assumption.
  - destruct e; inversion H; subst; assumption.
Qed.

Lemma handshake_ext x req key subs r x' :
  handshake x req key subs = (r, x') -> ext (xlog x (IWrite req)) x'.
Proof.
  intros H. unfold handshake in H.
  destruct (read_headers (xlog x (IWrite req))) as [[h|e] x2] eqn:E;
    apply read_headers_ext in E.
  2:{ inversion H; subst; assumption. }
  match type of H with context [if ?b then _ else _] => destruct b end.
  - destruct (body_read (h_headers h) x2) as [[u|e] x3] eqn:B; apply body_read_ext in B;
      inversion H; subst; eapply ext_trans; eassumption.
  - match type of H with context [if ?b then _ else _] => destruct b end.
    + inversion H; subst; assumption.
    + destruct (hs_validate (h_headers h) key subs) as [[|] sub0]; inversion H; subst; assumption.
Qed.

Lemma handshake_log x req key subs r x' :
  handshake x req key subs = (r, x') ->
  exists tail, iolog x' = iolog x ++ IWrite req :: tail /\ reads tail.
Proof.
  intros H. apply handshake_ext in H. destruct H as [tail [E R]].
  exists tail. split; [|exact R]. rewrite E. unfold xlog. cbn [iolog].
  rewrite <- app_assoc. reflexivity.
Qed.

Theorem handshake_writes_once : forall x req key subs r x',
  handshake x req key subs = (r, x') ->
  exists tail, iolog x' = iolog x ++ IWrite req :: tail /\
               forall e, In e tail -> exists n, e = IRead n.
Proof.
  intros x req key subs r x' H. apply handshake_log in H. destruct H as [tail [E R]].
  exists tail. split; [exact E|]. intros e He.
  unfold reads in R. rewrite Forall_forall in R. destruct (R e He) as [n [Hn _]]. eauto.
Qed.

Theorem handshake_reads_bounded : forall x req key subs r x',
  handshake x req key subs = (r, x') ->
  forall n, In (IRead n) (iolog x') -> In (IRead n) (iolog x) \/ n <= 16384.
Proof.
  intros x req key subs r x' H n Hin. apply handshake_log in H. destruct H as [tail [E R]].
  rewrite E in Hin. apply in_app_or in Hin. destruct Hin as [Hin|[Hin|Hin]].
  - left; exact Hin.
  - discriminate Hin.
  - right. unfold reads in R. rewrite Forall_forall in R.
    destruct (R _ Hin) as [m [Hm Hb]]. inversion Hm; subst; exact Hb.
Qed.

(* ================================================================================== *)
(* Part 2 : the request (C10)                                                          *)
(* ================================================================================== *)

(* ---- the request lines, piece by piece ---- *)
Definition hostport (host : str) (port : Z) : str :=
  if host_port_omitted port then pack_hostname host else pack_hostname host ++ [58] ++ str_of_Z port.
Definition host_val (host : str) (port : Z) (o : hsopts) : str :=
  if opt_truthy (o_host o) then opt_get (o_host o) else hostport host port.
Definition origin_vals (scheme host : str) (port : Z) (o : hsopts) : list str :=
  if o_suppress_origin o then []
  else match o_origin o with
       | Some (Some og) => [og]
       | _ => if str_eqb scheme S_WSS then [S_HTTPS ++ hostport host port]
              else [S_HTTP ++ hostport host port]
       end.
Definition own_key (o : hsopts) : bool :=
  negb (hdr_truthy (o_header o)) || negb (hdr_has S_KEY (o_header o)).
Definition own_version (o : hsopts) : bool :=
  negb (hdr_truthy (o_header o)) || negb (hdr_has S_VERSION (o_header o)).
Definition key_used (o : hsopts) (fresh_key : str) : str :=
  if own_key o then fresh_key
  else match o_header o with
       | HDict d => match alist_get S_KEY d with Some (Some k) => k | _ => [] end
       | _ => []
       end.
Definition conn_val (o : hsopts) : str :=
  if opt_truthy (o_connection o) then opt_get (o_connection o) else [85; 112; 103; 114; 97; 100; 101].
Definition proto_vals (o : hsopts) : list str :=
  match o_subprotocols o with [] => [] | sp => [join [44] sp] end.
Definition custom_lines (h : hdropt) : list str :=
  match h with
  | HNone => []
  | HList l => l
  | HDict d => flat_map (fun kv => match snd kv with Some v => [fst kv ++ S_COLON_SP ++ v] | None => [] end) d
  end.
Definition cookie_val (server_cookie : str) (o : hsopts) : str :=
  join [59; 32] (filter (fun c => negb (Nat.eqb (length c) 0)) [server_cookie; opt_get (o_cookie o)]).
Definition cookie_vals (server_cookie : str) (o : hsopts) : list str :=
  match cookie_val server_cookie o with [] => [] | c => [c] end.

Definition header_lines (scheme host : str) (port : Z) (o : hsopts) (fresh_key server_cookie : str)
    : list str :=
  [S_UPGRADE_WS] ++ [S_HOST ++ host_val host port o]
  ++ map (app S_ORIGIN) (origin_vals scheme host port o)
  ++ (if own_key o then [S_KEY ++ S_COLON_SP ++ fresh_key] else [])
  ++ (if own_version o then [S_VERSION ++ S_COLON_SP ++ str_of_Z VERSION] else [])
  ++ [S_CONN ++ conn_val o]
  ++ map (app S_PROTO) (proto_vals o)
  ++ custom_lines (o_header o)
  ++ map (app S_COOKIE) (cookie_vals server_cookie o).

Lemma app_if1 {A} (c : bool) (l a : list A) : (if c then l ++ a else l) = l ++ (if c then a else []).
Proof. destruct c; [reflexivity|now rewrite app_nil_r]. Qed.
Lemma app_if2 {A} (c : bool) (l a b : list A) :
  (if c then l ++ a else l ++ b) = l ++ (if c then a else b).
Proof. destruct c; reflexivity. Qed.
Lemma app_if3 {A} (c : bool) (l b : list A) : (if c then l else l ++ b) = l ++ (if c then [] else b).
Proof. destruct c; [now rewrite app_nil_r|reflexivity]. Qed.

Lemma origin_shape (l2 : list str) scheme host port o :
  (if o_suppress_origin o then l2
   else match o_origin o with
        | Some (Some og) => l2 ++ [S_ORIGIN ++ og]
        | _ => if str_eqb scheme S_WSS then l2 ++ [S_ORIGIN ++ S_HTTPS ++ hostport host port]
               else l2 ++ [S_ORIGIN ++ S_HTTP ++ hostport host port]
        end) = l2 ++ map (app S_ORIGIN) (origin_vals scheme host port o).
Proof.
  unfold origin_vals. destruct (o_suppress_origin o); [now rewrite app_nil_r|].
  destruct (o_origin o) as [[og|]|]; try reflexivity; destruct (str_eqb scheme S_WSS); reflexivity.
Qed.

Lemma conn_shape (l5 : list str) o :
  (if opt_truthy (o_connection o) then l5 ++ [S_CONN ++ opt_get (o_connection o)]
   else l5 ++ [S_CONN_UPGRADE]) = l5 ++ [S_CONN ++ conn_val o].
Proof. unfold conn_val. destruct (opt_truthy (o_connection o)); reflexivity. Qed.

Lemma proto_shape (l6 : list str) o :
  match o_subprotocols o with [] => l6 | sp => l6 ++ [S_PROTO ++ join [44] sp] end
  = l6 ++ map (app S_PROTO) (proto_vals o).
Proof. unfold proto_vals. destruct (o_subprotocols o); [now rewrite app_nil_r|reflexivity]. Qed.

Lemma custom_shape (l7 : list str) h :
  match h with
  | HList l => if hdr_truthy h then l7 ++ l else l7
  | HDict d => l7 ++ flat_map (fun kv => match snd kv with Some v => [fst kv ++ S_COLON_SP ++ v] | None => [] end) d
  | HNone => l7
  end = l7 ++ custom_lines h.
Proof.
  destruct h as [|l|d]; cbn [custom_lines]; [now rewrite app_nil_r| |reflexivity].
  destruct l; [now rewrite app_nil_r|reflexivity].
Qed.

Lemma cookie_shape (l8 : list str) sc o :
  match cookie_val sc o with [] => l8 | _ => l8 ++ [S_COOKIE ++ cookie_val sc o] end
  = l8 ++ map (app S_COOKIE) (cookie_vals sc o).
Proof. unfold cookie_vals. destruct (cookie_val sc o); [now rewrite app_nil_r|reflexivity]. Qed.

(* everything after the key decision *)
Lemma ghh_tail (l4 : list str) o sc (key : str) lines key' :
  (let l5 := if negb (hdr_truthy (o_header o)) || negb (hdr_has S_VERSION (o_header o))
              then l4 ++ [S_VERSION ++ S_COLON_SP ++ str_of_Z VERSION] else l4 in
   let l6 := if opt_truthy (o_connection o) then l5 ++ [S_CONN ++ opt_get (o_connection o)] else l5 ++ [S_CONN_UPGRADE] in
   let l7 := match o_subprotocols o with [] => l6 | sp => l6 ++ [S_PROTO ++ join [44] sp] end in
   let l8 := match o_header o with
             | HList l => if hdr_truthy (o_header o) then l7 ++ l else l7
             | HDict d => l7 ++ flat_map (fun kv => match snd kv with Some v => [fst kv ++ S_COLON_SP ++ v] | None => [] end) d
             | HNone => l7
             end in
   let cookie := join [59; 32] (filter (fun c => negb (Nat.eqb (length c) 0)) [sc; opt_get (o_cookie o)]) in
   let l9 := match cookie with [] => l8 | _ => l8 ++ [S_COOKIE ++ cookie] end in
   @Ok (list str * str) (l9 ++ [[]; []], key)) = Ok (lines, key') ->
  lines = l4
    ++ (if own_version o then [S_VERSION ++ S_COLON_SP ++ str_of_Z VERSION] else [])
    ++ [S_CONN ++ conn_val o]
    ++ map (app S_PROTO) (proto_vals o)
    ++ custom_lines (o_header o)
    ++ map (app S_COOKIE) (cookie_vals sc o) ++ [[]; []]
  /\ key' = key.
Proof.
  cbv zeta. fold (cookie_val sc o). fold (own_version o).
  rewrite app_if1, conn_shape, proto_shape, custom_shape, cookie_shape.
  intros H. inversion H; subst. split; [|reflexivity].
  rewrite <- !app_assoc. reflexivity.
Qed.

Lemma ghh_shape resource scheme host port o fk sc lines key :
  get_handshake_headers resource scheme host port o fk sc = Ok (lines, key) ->
  lines = (S_GET ++ resource ++ S_HTTP11) :: header_lines scheme host port o fk sc ++ [[]; []]
  /\ key = key_used o fk.
Proof.
  unfold get_handshake_headers. cbv zeta.
  fold (hostport host port). fold (own_key o).
  rewrite origin_shape. unfold header_lines, key_used.
  destruct (own_key o) eqn:Eo.
  - intros H. apply ghh_tail in H. destruct H as [-> ->]. split; [|reflexivity].
    repeat first [rewrite <- !app_assoc | progress cbn [app]]. reflexivity.
  - intros H.
    match type of H with (match ?r with _ => _ end) = _ =>
      destruct r as [[l4 k]|e] eqn:Ek; [|discriminate H] end.
    apply ghh_tail in H. destruct H as [-> ->].
    assert (l4 = [S_GET ++ resource ++ S_HTTP11; S_UPGRADE_WS]
                 ++ [S_HOST ++ (if opt_truthy (o_host o) then opt_get (o_host o) else hostport host port)]
                 ++ map (app S_ORIGIN) (origin_vals scheme host port o)
            /\ k = match o_header o with
                   | HDict d => match alist_get S_KEY d with Some (Some k) => k | _ => [] end
                   | _ => []
                   end) as [-> ->].
    { destruct (o_header o) as [|l|d]; try discriminate.
      destruct (alist_get S_KEY d) as [[k0|]|]; try discriminate.
      inversion Ek; subst. split; [|reflexivity].
      repeat first [rewrite <- !app_assoc | progress cbn [app]]. reflexivity. }
    split; [|reflexivity].
    repeat first [rewrite <- !app_assoc | progress cbn [app]]. reflexivity.
Qed.

(* ---- strings ---- *)
Definition ncl (s : str) : Prop := no_crlf s = true.

Lemma contains_char_app c a b : contains_char c (a ++ b) = contains_char c a || contains_char c b.
Proof. induction a as [|x a IH]; cbn [app contains_char]; [reflexivity|]. now rewrite IH, orb_assoc. Qed.

Lemma no_crlf_app a b : no_crlf (a ++ b) = no_crlf a && no_crlf b.
Proof.
  unfold no_crlf. rewrite !contains_char_app.
  destruct (contains_char 13 a), (contains_char 13 b), (contains_char 10 a), (contains_char 10 b);
    reflexivity.
Qed.
Lemma ncl_app a b : ncl a -> ncl b -> ncl (a ++ b).
Proof. unfold ncl. intros Ha Hb. now rewrite no_crlf_app, Ha, Hb. Qed.
Lemma ncl_no13 s : ncl s -> contains_char 13 s = false.
Proof. unfold ncl, no_crlf. intros H. apply andb_true_iff in H. destruct H as [H _]. now apply negb_true_iff in H. Qed.

Lemma ncl_join sep ls : ncl sep -> Forall ncl ls -> ncl (join sep ls).
Proof.
  intros Hs. induction ls as [|x ls IH]; intros HF; [reflexivity|].
  inversion HF as [|? ? Hx Hr]; subst. destruct ls as [|y r]; [exact Hx|].
  change (join sep (x :: y :: r)) with (x ++ sep ++ join sep (y :: r)).
  apply ncl_app; [exact Hx|]. apply ncl_app; [exact Hs|]. apply IH; exact Hr.
Qed.

Lemma forall_no_char (P : Z -> Prop) c s : Forall P s -> ~ P c -> contains_char c s = false.
Proof.
  intros HF Hc. induction HF as [|x s Hx _ IH]; [reflexivity|]. cbn [contains_char].
  rewrite IH, orb_false_r. apply Z.eqb_neq. intros ->. exact (Hc Hx).
Qed.

Lemma digits_of_pos_ok : forall fuel n acc, 0 <= n ->
  Forall (fun c => 48 <= c <= 57) acc -> Forall (fun c => 48 <= c <= 57) (digits_of_pos fuel n acc).
Proof.
  induction fuel as [|k IH]; intros n acc Hn Ha; cbn [digits_of_pos]; [exact Ha|].
  destruct (n <? 10) eqn:E.
  - constructor; [lia|exact Ha].
  - apply IH; [apply Z.div_pos; lia|]. constructor; [|exact Ha].
    pose proof (Z.mod_pos_bound n 10). lia.
Qed.
Lemma str_of_Z_chars p : Forall (fun c => c = 45 \/ 48 <= c <= 57) (str_of_Z p).
Proof.
  unfold str_of_Z. destruct (p <? 0) eqn:E.
  - constructor; [now left|]. eapply Forall_impl; [|apply digits_of_pos_ok; [lia|constructor]].
    intros; now right.
  - eapply Forall_impl; [|apply digits_of_pos_ok; [lia|constructor]]. intros; now right.
Qed.
Lemma str_of_Z_ncl p : ncl (str_of_Z p).
Proof.
  unfold ncl, no_crlf.
  rewrite (forall_no_char _ 13 _ (str_of_Z_chars p)) by lia.
  rewrite (forall_no_char _ 10 _ (str_of_Z_chars p)) by lia. reflexivity.
Qed.

(* str.strip() *)
Lemma strip_sp v : strip (32 :: v) = strip v.
Proof. reflexivity. Qed.
Definition trimmedb (s : str) : bool :=
  match s with [] => true | c :: _ => negb (is_space c) && negb (is_space (last s 0)) end.
Lemma strip_trimmed s : trimmedb s = true -> strip s = s.
Proof.
  destruct s as [|c r]; [reflexivity|]. unfold trimmedb. intros H.
  apply andb_true_iff in H. destruct H as [H1 H2]. apply negb_true_iff in H1, H2.
  unfold strip.
  assert (L : lstrip (c :: r) = c :: r) by (cbn [lstrip]; now rewrite H1).
  rewrite L. clear L H1. unfold rstrip.
  assert (E : c :: r = removelast (c :: r) ++ [last (c :: r) 0])
    by (apply app_removelast_last; discriminate).
  remember (c :: r) as s eqn:Es. clear Es.
  rewrite E at 1. rewrite rev_app_distr. cbn [rev app lstrip]. rewrite H2.
  cbn [rev]. rewrite rev_involutive. symmetry. exact E.
Qed.

(* ---- splitting at CRLF ---- *)
Lemma split_crlf_aux_other c r cur : c <> 13 -> split_crlf_aux (c :: r) cur = split_crlf_aux r (c :: cur).
Proof.
  intros Hc. destruct c as [|p|p]; try reflexivity.
  do 4 (try (destruct p as [p|p|]; try reflexivity)).
  exfalso. apply Hc. reflexivity.
Qed.
Lemma split_crlf_aux_crlf r cur : split_crlf_aux (13 :: 10 :: r) cur = rev cur :: split_crlf_aux r [].
Proof. reflexivity. Qed.

Lemma split_crlf_aux_app : forall l rest cur, contains_char 13 l = false ->
  split_crlf_aux (l ++ rest) cur = split_crlf_aux rest (rev l ++ cur).
Proof.
  induction l as [|c l IH]; intros rest cur H; [reflexivity|].
  cbn [contains_char] in H. apply orb_false_iff in H. destruct H as [H1 H2].
  rewrite <- app_comm_cons, split_crlf_aux_other by (apply Z.eqb_neq; exact H1).
  rewrite IH by exact H2. cbn [rev]. rewrite <- app_assoc. reflexivity.
Qed.

Lemma split_crlf_aux_join : forall ls x cur,
  Forall (fun l => contains_char 13 l = false) (x :: ls) ->
  split_crlf_aux (join CRLF (x :: ls)) cur = rev (rev x ++ cur) :: ls.
Proof.
  induction ls as [|y ls IH]; intros x cur HF; inversion HF as [|? ? Hx Hr]; subst.
  - cbn [join]. rewrite <- (app_nil_r x) at 1. rewrite split_crlf_aux_app by exact Hx. reflexivity.
  - change (join CRLF (x :: y :: ls)) with (x ++ 13 :: 10 :: join CRLF (y :: ls)).
    rewrite split_crlf_aux_app by exact Hx. rewrite split_crlf_aux_crlf.
    rewrite IH by exact Hr. rewrite app_nil_r, rev_involutive. reflexivity.
Qed.

(* the general statement: joining CR/LF-free lines with CRLF and splitting at CRLF is the identity *)
Theorem split_crlf_join : forall ls, ls <> [] -> Forall (fun l => no_crlf l = true) ls ->
  split_crlf (join CRLF ls) = ls.
Proof.
  intros ls Hne HF. destruct ls as [|x ls]; [congruence|]. unfold split_crlf.
  rewrite split_crlf_aux_join.
  - rewrite app_nil_r, rev_involutive. reflexivity.
  - eapply Forall_impl; [|exact HF]. intros a Ha. apply ncl_no13. exact Ha.
Qed.

(* ---- splitting at one character ---- *)
Lemma split_all_aux_app sep : forall l rest cur, contains_char sep l = false ->
  split_all_aux sep (l ++ rest) cur = split_all_aux sep rest (rev l ++ cur).
Proof.
  induction l as [|c l IH]; intros rest cur H; [reflexivity|].
  cbn [contains_char] in H. apply orb_false_iff in H. destruct H as [H1 H2].
  cbn [app split_all_aux]. rewrite H1, IH by exact H2. cbn [rev]. rewrite <- app_assoc. reflexivity.
Qed.
Lemma split_all_aux_sep sep r cur : split_all_aux sep (sep :: r) cur = rev cur :: split_all_aux sep r [].
Proof. cbn [split_all_aux]. now rewrite Z.eqb_refl. Qed.

Lemma reqline_split resource : contains_char 32 resource = false ->
  split_all 32 (S_GET ++ resource ++ S_HTTP11) = [S_GET_; resource; S_HTTP11_].
Proof.
  intros H. unfold split_all.
  change (S_GET ++ resource ++ S_HTTP11) with (S_GET_ ++ 32 :: resource ++ 32 :: S_HTTP11_ ++ []).
  rewrite split_all_aux_app by reflexivity. rewrite split_all_aux_sep.
  rewrite split_all_aux_app by exact H. rewrite split_all_aux_sep.
  rewrite split_all_aux_app by reflexivity. cbn [split_all_aux].
  rewrite !app_nil_r, !rev_involutive. reflexivity.
Qed.

Lemma split_once_app sep : forall n r, contains_char sep n = false ->
  split_once sep (n ++ sep :: r) = Some (n, r).
Proof.
  induction n as [|c n IH]; intros r H; cbn [app split_once].
  - now rewrite Z.eqb_refl.
  - cbn [contains_char] in H. apply orb_false_iff in H. destruct H as [H1 H2].
    now rewrite H1, IH by exact H2.
Qed.

Lemma tchar_not c n : tchar c = false -> forallb tchar n = true -> contains_char c n = false.
Proof.
  intros Hc. induction n as [|x n IH]; cbn [forallb contains_char]; intros H; [reflexivity|].
  apply andb_true_iff in H. destruct H as [Hx Hn]. rewrite IH by exact Hn. rewrite orb_false_r.
  apply Z.eqb_neq. intros ->. congruence.
Qed.
Lemma token_ncl n : is_token n = true -> ncl n.
Proof.
  unfold is_token. intros H. apply andb_true_iff in H. destruct H as [_ H].
  unfold ncl, no_crlf. now rewrite !tchar_not by (reflexivity || exact H).
Qed.

(* a rendered header line parses back to its name and (stripped) value *)
Lemma parse_nv n v : is_token n = true -> parse_header_line (n ++ S_COLON_SP ++ v) = Some (n, strip v).
Proof.
  intros H. unfold parse_header_line.
  change (n ++ S_COLON_SP ++ v) with (n ++ 58 :: 32 :: v).
  rewrite split_once_app.
  - rewrite H, strip_sp. reflexivity.
  - unfold is_token in H. apply andb_true_iff in H. destruct H as [_ H].
    apply tchar_not; [reflexivity|exact H].
Qed.

Lemma parse_lines_app a b x y :
  parse_header_lines a = Some x -> parse_header_lines b = Some y ->
  parse_header_lines (a ++ b) = Some (x ++ y).
Proof.
  revert x. induction a as [|l a IH]; intros x Ha Hb; cbn [app parse_header_lines] in *.
  - inversion Ha; subst. exact Hb.
  - destruct (parse_header_line l) as [h|]; [|discriminate Ha].
    destruct (parse_header_lines a) as [t|]; [|discriminate Ha].
    inversion Ha; subst. now rewrite (IH t eq_refl Hb).
Qed.

Lemma parse_lines_nonempty : forall ls hs, parse_header_lines ls = Some hs ->
  forall l, In l ls -> l <> [].
Proof.
  induction ls as [|x ls IH]; intros hs H l Hin; [contradiction|].
  cbn [parse_header_lines] in H.
  destruct (parse_header_line x) as [h|] eqn:E; [|discriminate H].
  destruct (parse_header_lines ls) as [t|] eqn:E2; [|discriminate H].
  destruct Hin as [->|Hin]; [|eapply IH; eauto].
  intros ->. discriminate E.
Qed.

Lemma parse_request_intro resource hdrs hs :
  resource <> [] -> contains_char 32 resource = false -> ncl resource ->
  Forall ncl hdrs -> parse_header_lines hdrs = Some hs ->
  parse_request (join CRLF ((S_GET ++ resource ++ S_HTTP11) :: hdrs ++ [[]; []])) = Some (resource, hs).
Proof.
  intros Hne Hsp Hr Hh Hp. unfold parse_request.
  rewrite split_crlf_join.
  2:{ discriminate. }
  2:{ constructor.
      - apply ncl_app; [reflexivity|]. apply ncl_app; [exact Hr|reflexivity].
      - apply Forall_app. split; [exact Hh|]. repeat constructor. }
  rewrite reqline_split by exact Hsp. cbv beta iota.
  change (str_eqb S_GET_ S_GET_) with true. change (str_eqb S_HTTP11_ S_HTTP11_) with true.
  destruct resource as [|c0 r0]; [congruence|]. cbn [length Nat.eqb negb andb].
  rewrite rev_app_distr. cbn [rev app]. cbv beta iota.
  assert (F : forallb (fun l : list Z => negb (Nat.eqb (length l) 0)) (rev hdrs) = true).
  { apply forallb_forall. intros l Hin. apply in_rev in Hin.
    pose proof (parse_lines_nonempty _ _ Hp l Hin). destruct l; [congruence|reflexivity]. }
  rewrite F, rev_involutive, Hp. reflexivity.
Qed.

(* ---- well-formed inputs ---- *)
(* [ncl s] : s contains neither CR nor LF.
   - the resource is non-empty, without space, CR, LF ;
   - host, host= option, origin, connection, cookies, subprotocols, the fresh key: no CR, LF ;
   - a custom header list: every line is CR/LF-free and is a header line ("token ':' anything") ;
   - a custom header dict: every item with a non-None value has a token name and a CR/LF-free value
     (items whose value is None are unconstrained: they are skipped). *)
Record opts_ok (resource host : str) (o : hsopts) (fresh_key server_cookie : str) : Prop := {
  ok_resource_nonempty : resource <> [];
  ok_resource_nosp : contains_char 32 resource = false;
  ok_resource : ncl resource;
  ok_host : ncl host;
  ok_o_host : forall h, o_host o = Some h -> ncl h;
  ok_origin : forall og, o_origin o = Some (Some og) -> ncl og;
  ok_connection : forall c, o_connection o = Some c -> ncl c;
  ok_cookie : forall c, o_cookie o = Some c -> ncl c;
  ok_server_cookie : ncl server_cookie;
  ok_subprotocols : Forall ncl (o_subprotocols o);
  ok_fresh_key : ncl fresh_key;
  ok_header :
    match o_header o with
    | HNone => True
    | HList l => Forall (fun x => ncl x /\ parse_header_line x <> None) l
    | HDict d => Forall (fun kv => match snd kv with
                                   | Some v => is_token (fst kv) = true /\ ncl v
                                   | None => True
                                   end) d
    end
}.

(* header names *)
Definition N_UPGRADE := [85; 112; 103; 114; 97; 100; 101].                  (* "Upgrade" *)
Definition N_HOST := [72; 111; 115; 116].                                    (* "Host" *)
Definition N_ORIGIN := [79; 114; 105; 103; 105; 110].                        (* "Origin" *)
Definition N_CONN := [67; 111; 110; 110; 101; 99; 116; 105; 111; 110].       (* "Connection" *)
Definition N_PROTO := [83; 101; 99; 45; 87; 101; 98; 83; 111; 99; 107; 101; 116; 45; 80; 114; 111; 116; 111; 99; 111; 108]. (* "Sec-WebSocket-Protocol" *)
Definition N_COOKIE := [67; 111; 111; 107; 105; 101].                        (* "Cookie" *)
Definition N_KEY := S_KEY.                                                   (* "Sec-WebSocket-Key" *)
Definition N_VERSION := S_VERSION.                                           (* "Sec-WebSocket-Version" *)
Definition V_13 := [49; 51].                                                 (* "13" *)
Definition V_UPGRADE := [85; 112; 103; 114; 97; 100; 101].                   (* "Upgrade" *)

Lemma S_UPGRADE_WS_eq : S_UPGRADE_WS = N_UPGRADE ++ S_COLON_SP ++ S_websocket. Proof. reflexivity. Qed.
Lemma S_HOST_eq : S_HOST = N_HOST ++ S_COLON_SP. Proof. reflexivity. Qed.
Lemma S_ORIGIN_eq : S_ORIGIN = N_ORIGIN ++ S_COLON_SP. Proof. reflexivity. Qed.
Lemma S_CONN_eq : S_CONN = N_CONN ++ S_COLON_SP. Proof. reflexivity. Qed.
Lemma S_PROTO_eq : S_PROTO = N_PROTO ++ S_COLON_SP. Proof. reflexivity. Qed.
Lemma S_COOKIE_eq : S_COOKIE = N_COOKIE ++ S_COLON_SP. Proof. reflexivity. Qed.

Lemma parse_pref S N v : S = N ++ S_COLON_SP -> is_token N = true ->
  parse_header_line (S ++ v) = Some (N, strip v).
Proof. intros -> H. rewrite <- app_assoc. apply parse_nv. exact H. Qed.

(* ---- the parsed header list, piece by piece ---- *)
Definition parse_opt (l : str) : list (str * str) :=
  match parse_header_line l with Some kv => [kv] | None => [] end.
Definition custom_hs (h : hdropt) : list (str * str) := flat_map parse_opt (custom_lines h).

Definition header_hs (scheme host : str) (port : Z) (o : hsopts) (fresh_key server_cookie : str)
    : list (str * str) :=
  [(N_UPGRADE, S_websocket)] ++ [(N_HOST, strip (host_val host port o))]
  ++ map (fun v => (N_ORIGIN, strip v)) (origin_vals scheme host port o)
  ++ (if own_key o then [(N_KEY, strip fresh_key)] else [])
  ++ (if own_version o then [(N_VERSION, V_13)] else [])
  ++ [(N_CONN, strip (conn_val o))]
  ++ map (fun v => (N_PROTO, strip v)) (proto_vals o)
  ++ custom_hs (o_header o)
  ++ map (fun v => (N_COOKIE, strip v)) (cookie_vals server_cookie o).

Lemma parse_lines_map S N vals : S = N ++ S_COLON_SP -> is_token N = true ->
  parse_header_lines (map (app S) vals) = Some (map (fun v => (N, strip v)) vals).
Proof.
  intros HS HN. induction vals as [|v vals IH]; [reflexivity|].
  cbn [map parse_header_lines]. rewrite (parse_pref S N v HS HN), IH. reflexivity.
Qed.
Lemma ncl_map S vals : ncl S -> Forall ncl vals -> Forall ncl (map (app S) vals).
Proof.
  intros HS HF. induction HF as [|v vals Hv _ IH]; [constructor|].
  cbn [map]. constructor; [apply ncl_app; assumption|exact IH].
Qed.

Lemma parse_custom h :
  match h with
  | HNone => True
  | HList l => Forall (fun x => ncl x /\ parse_header_line x <> None) l
  | HDict d => Forall (fun kv => match snd kv with
                                 | Some v => is_token (fst kv) = true /\ ncl v
                                 | None => True
                                 end) d
  end ->
  parse_header_lines (custom_lines h) = Some (custom_hs h) /\ Forall ncl (custom_lines h).
Proof.
  unfold custom_hs. destruct h as [|l|d]; cbn [custom_lines]; intros H.
  - split; [reflexivity|constructor].
  - induction H as [|x l [Hx Hp] _ [IH1 IH2]]; [split; [reflexivity|constructor]|].
    split; [|constructor; assumption].
    cbn [parse_header_lines flat_map]. unfold parse_opt at 1.
    destruct (parse_header_line x) as [kv|]; [|congruence]. rewrite IH1. reflexivity.
  - induction H as [|[k [v|]] d Hkv _ [IH1 IH2]]; [split; [reflexivity|constructor]| |];
      cbn [flat_map snd fst app] in *.
    + destruct Hkv as [Hk Hv]. split.
      * cbn [parse_header_lines]. unfold parse_opt at 1. rewrite (parse_nv k v Hk), IH1. reflexivity.
      * constructor; [|exact IH2]. apply ncl_app; [apply token_ncl; exact Hk|].
        apply ncl_app; [reflexivity|exact Hv].
    + split; assumption.
Qed.

(* None-valued dict entries are skipped; the others appear in order as (name, stripped value) *)
Theorem custom_dict_headers d :
  Forall (fun kv => match snd kv with
                    | Some v => is_token (fst kv) = true /\ ncl v
                    | None => True
                    end) d ->
  custom_hs (HDict d) =
  flat_map (fun kv => match snd kv with Some v => [(fst kv, strip v)] | None => [] end) d.
Proof.
  unfold custom_hs. cbn [custom_lines].
  induction 1 as [|[k [v|]] d Hkv _ IH]; [reflexivity| |]; cbn [flat_map snd fst app] in *.
  - destruct Hkv as [Hk Hv]. unfold parse_opt at 1. rewrite (parse_nv k v Hk), IH. reflexivity.
  - exact IH.
Qed.

Lemma pack_hostname_ncl host : ncl host -> ncl (pack_hostname host).
Proof.
  intros H. unfold pack_hostname. destruct (contains_char 58 host); [|exact H].
  apply ncl_app; [reflexivity|]. apply ncl_app; [exact H|reflexivity].
Qed.
Lemma hostport_ncl host port : ncl host -> ncl (hostport host port).
Proof.
  intros H. unfold hostport. destruct (host_port_omitted port).
  - apply pack_hostname_ncl; exact H.
  - apply ncl_app; [apply pack_hostname_ncl; exact H|]. apply ncl_app; [reflexivity|apply str_of_Z_ncl].
Qed.

Lemma opt_get_ncl (oo : option str) : (forall x, oo = Some x -> ncl x) -> ncl (opt_get oo).
Proof. destruct oo as [x|]; intros H; [apply H; reflexivity|reflexivity]. Qed.

Lemma header_lines_parse resource scheme host port o fk sc :
  opts_ok resource host o fk sc ->
  parse_header_lines (header_lines scheme host port o fk sc) = Some (header_hs scheme host port o fk sc)
  /\ Forall ncl (header_lines scheme host port o fk sc).
Proof.
  intros OK. destruct (parse_custom (o_header o) (ok_header _ _ _ _ _ OK)) as [PC NC].
  pose proof (hostport_ncl host port (ok_host _ _ _ _ _ OK)) as Hhp.
  unfold header_lines, header_hs. rewrite VERSION_str. split.
  - repeat apply parse_lines_app.
    + reflexivity.
    + cbn [parse_header_lines]. rewrite (parse_pref S_HOST N_HOST _ S_HOST_eq eq_refl). reflexivity.
    + apply parse_lines_map; reflexivity.
    + destruct (own_key o); [|reflexivity]. cbn [parse_header_lines].
      rewrite (parse_nv S_KEY fk eq_refl). reflexivity.
    + destruct (own_version o); [|reflexivity]. reflexivity.
    + cbn [parse_header_lines]. rewrite (parse_pref S_CONN N_CONN _ S_CONN_eq eq_refl). reflexivity.
    + apply parse_lines_map; reflexivity.
    + exact PC.
    + apply parse_lines_map; reflexivity.
  - repeat (apply Forall_app; split).
    + repeat constructor.
    + repeat constructor. apply ncl_app; [reflexivity|]. unfold host_val.
      destruct (opt_truthy (o_host o)); [|exact Hhp]. apply opt_get_ncl, (ok_o_host _ _ _ _ _ OK).
    + apply ncl_map; [reflexivity|]. unfold origin_vals.
      destruct (o_suppress_origin o); [constructor|].
      destruct (o_origin o) as [[og|]|] eqn:Eo.
      * repeat constructor. apply (ok_origin _ _ _ _ _ OK). exact Eo.
      * destruct (str_eqb scheme S_WSS); repeat constructor; apply ncl_app; (reflexivity || exact Hhp).
      * destruct (str_eqb scheme S_WSS); repeat constructor; apply ncl_app; (reflexivity || exact Hhp).
    + destruct (own_key o); repeat constructor.
      apply ncl_app; [reflexivity|]. apply ncl_app; [reflexivity|apply (ok_fresh_key _ _ _ _ _ OK)].
    + destruct (own_version o); repeat constructor.
    + repeat constructor. apply ncl_app; [reflexivity|]. unfold conn_val.
      destruct (opt_truthy (o_connection o)); [|reflexivity].
      apply opt_get_ncl, (ok_connection _ _ _ _ _ OK).
    + apply ncl_map; [reflexivity|]. unfold proto_vals.
      pose proof (ok_subprotocols _ _ _ _ _ OK) as Hs.
      destruct (o_subprotocols o) as [|s0 r]; [constructor|].
      repeat constructor. apply ncl_join; [reflexivity|exact Hs].
    + exact NC.
    + apply ncl_map; [reflexivity|]. unfold cookie_vals.
      assert (Hc : ncl (cookie_val sc o)).
      { unfold cookie_val. apply ncl_join; [reflexivity|].
        pose proof (ok_server_cookie _ _ _ _ _ OK) as H1.
        pose proof (opt_get_ncl _ (ok_cookie _ _ _ _ _ OK)) as H2.
        cbn [filter]. destruct (negb (Nat.eqb (length sc) 0)), (negb (Nat.eqb (length (opt_get (o_cookie o))) 0));
          repeat constructor; assumption. }
      destruct (cookie_val sc o); repeat constructor. exact Hc.
Qed.

(* the request bytes parse as an HTTP/1.1 GET request for [resource] with exactly the headers [header_hs] *)
Theorem request_parse : forall resource scheme host port o fresh_key server_cookie lines key,
  get_handshake_headers resource scheme host port o fresh_key server_cookie = Ok (lines, key) ->
  opts_ok resource host o fresh_key server_cookie ->
  parse_request (request_bytes lines)
  = Some (resource, header_hs scheme host port o fresh_key server_cookie).
Proof.
  intros resource scheme host port o fk sc lines key Hg OK.
  apply ghh_shape in Hg. destruct Hg as [-> _].
  destruct (header_lines_parse resource scheme host port o fk sc OK) as [HP HN].
  unfold request_bytes. apply parse_request_intro.
  - apply (ok_resource_nonempty _ _ _ _ _ OK).
  - apply (ok_resource_nosp _ _ _ _ _ OK).
  - apply (ok_resource _ _ _ _ _ OK).
  - exact HN.
  - exact HP.
Qed.

(* (2a) *)
Theorem request_wellformed : forall resource scheme host port o fresh_key server_cookie lines key,
  get_handshake_headers resource scheme host port o fresh_key server_cookie = Ok (lines, key) ->
  opts_ok resource host o fresh_key server_cookie ->
  exists hs, parse_request (request_bytes lines) = Some (resource, hs).
Proof. intros. eexists. eapply request_parse; eassumption. Qed.

(* ---- (2b) the individual headers ---- *)
Definition ci_eqb (m n : str) : bool := str_eqb (lower m) (lower n).

Lemma header_values_app n a b : header_values n (a ++ b) = header_values n a ++ header_values n b.
Proof. unfold header_values. now rewrite filter_app, map_app. Qed.
Lemma header_values_one n m v : header_values n [(m, v)] = if ci_eqb m n then [v] else [].
Proof. unfold header_values, ci_eqb. cbn [filter fst]. destruct (str_eqb (lower m) (lower n)); reflexivity. Qed.
Lemma header_values_map n m (f : str -> str) vals :
  header_values n (map (fun v => (m, f v)) vals) = if ci_eqb m n then map f vals else [].
Proof.
  unfold header_values, ci_eqb. induction vals as [|v vals IH]; cbn [map filter fst].
  - destruct (str_eqb (lower m) (lower n)); reflexivity.
  - destruct (str_eqb (lower m) (lower n)); cbn [map snd]; [now rewrite IH|exact IH].
Qed.
Lemma header_values_if n (c : bool) kv :
  header_values n (if c then [kv] else []) = if c then header_values n [kv] else [].
Proof. destruct c; reflexivity. Qed.

Lemma if_same {A} (c : bool) (x : A) : (if c then x else x) = x.
Proof. destruct c; reflexivity. Qed.

Ltac ci_norm :=
  repeat match goal with
  | |- context [ci_eqb ?a ?b] =>
      let v := eval vm_compute in (ci_eqb a b) in change (ci_eqb a b) with v
  end; cbv beta iota.

(* header_values of the explicit header list, with the name comparisons evaluated *)
Ltac hv_explicit :=
  unfold header_hs;
  rewrite !header_values_app, !header_values_if, !header_values_one, !header_values_map;
  ci_norm; rewrite ?if_same.

Lemma host_val_default host port o :
  opt_truthy (o_host o) = false -> host_val host port o = host_header host port.
Proof.
  intros H. unfold host_val, hostport, host_header. rewrite H, host_port_omitted_eq. reflexivity.
Qed.
Lemma host_val_override host port o h :
  o_host o = Some h -> h <> [] -> host_val host port o = h.
Proof. intros E Hne. unfold host_val. rewrite E. destruct h; [congruence|reflexivity]. Qed.

Lemma hostport_eq host port : hostport host port = host_header host port.
Proof. unfold hostport, host_header. rewrite host_port_omitted_eq. reflexivity. Qed.

Lemma own_key_no_header o : hdr_has S_KEY (o_header o) = false -> own_key o = true.
Proof. unfold own_key. intros ->. apply orb_true_r. Qed.
Lemma own_version_no_header o : hdr_has S_VERSION (o_header o) = false -> own_version o = true.
Proof. unfold own_version. intros ->. apply orb_true_r. Qed.

Section Headers.
  Variables (resource scheme host : str) (port : Z) (o : hsopts) (fresh_key server_cookie : str).
  Variables (lines : list str) (key : str) (target : str) (hs : list (str * str)).
  Hypothesis Hg : get_handshake_headers resource scheme host port o fresh_key server_cookie = Ok (lines, key).
  Hypothesis OK : opts_ok resource host o fresh_key server_cookie.
  Hypothesis Hp : parse_request (request_bytes lines) = Some (target, hs).

  (* the caller's custom headers (header= list or dict) do not mention [name] (case-insensitively) *)
  Definition custom_free (name : str) : Prop := header_values name (custom_hs (o_header o)) = [].

  (* The complete header list, in order: Upgrade, Host, [Origin], [Key], [Version], Connection,
     [Protocol], custom headers, [Cookie]. *)
  Theorem request_headers_explicit :
    target = resource /\
    hs = [(N_UPGRADE, S_websocket)] ++ [(N_HOST, strip (host_val host port o))]
         ++ map (fun v => (N_ORIGIN, strip v)) (origin_vals scheme host port o)
         ++ (if own_key o then [(N_KEY, strip fresh_key)] else [])
         ++ (if own_version o then [(N_VERSION, V_13)] else [])
         ++ [(N_CONN, strip (conn_val o))]
         ++ map (fun v => (N_PROTO, strip v)) (proto_vals o)
         ++ custom_hs (o_header o)
         ++ map (fun v => (N_COOKIE, strip v)) (cookie_vals server_cookie o).
  Proof.
    rewrite (request_parse _ _ _ _ _ _ _ _ _ Hg OK) in Hp. inversion Hp; subst. split; reflexivity.
  Qed.

  Lemma hs_eq : hs = header_hs scheme host port o fresh_key server_cookie.
  Proof. exact (proj2 request_headers_explicit). Qed.

  Theorem request_target : target = resource.
  Proof. exact (proj1 request_headers_explicit). Qed.

  Theorem key_used_for_validation : key = key_used o fresh_key.
  Proof. exact (proj2 (ghh_shape _ _ _ _ _ _ _ _ _ Hg)). Qed.

  Theorem upgrade_header : custom_free N_UPGRADE -> header_values N_UPGRADE hs = [S_websocket].
  Proof. intros Hc. rewrite hs_eq. hv_explicit. rewrite Hc. reflexivity. Qed.

  Theorem host_header_value : custom_free N_HOST ->
    header_values N_HOST hs = [strip (host_val host port o)].
  Proof. intros Hc. rewrite hs_eq. hv_explicit. rewrite Hc. reflexivity. Qed.

  Corollary host_header_default : custom_free N_HOST -> opt_truthy (o_host o) = false ->
    header_values N_HOST hs = [strip (host_header host port)].
  Proof. intros Hc H. rewrite host_header_value by exact Hc. now rewrite host_val_default. Qed.

  Corollary host_header_override : forall h, custom_free N_HOST -> o_host o = Some h -> h <> [] ->
    header_values N_HOST hs = [strip h].
  Proof. intros h Hc E Hne. rewrite host_header_value by exact Hc. now rewrite (host_val_override _ _ _ h). Qed.

  Theorem version_header : custom_free N_VERSION -> own_version o = true ->
    header_values N_VERSION hs = [V_13].
  Proof. intros Hc Hv. rewrite hs_eq. hv_explicit. rewrite Hc, Hv. reflexivity. Qed.

  Theorem key_header : custom_free N_KEY -> own_key o = true ->
    header_values N_KEY hs = [strip fresh_key] /\ key = fresh_key.
  Proof.
    intros Hc Hk. split.
    - rewrite hs_eq. hv_explicit. rewrite Hc, Hk. reflexivity.
    - rewrite key_used_for_validation. unfold key_used. now rewrite Hk.
  Qed.

  Theorem connection_header : custom_free N_CONN ->
    header_values N_CONN hs = [strip (conn_val o)].
  Proof. intros Hc. rewrite hs_eq. hv_explicit. rewrite Hc. reflexivity. Qed.

  Corollary connection_header_default : custom_free N_CONN -> opt_truthy (o_connection o) = false ->
    header_values N_CONN hs = [V_UPGRADE].
  Proof. intros Hc H. rewrite connection_header by exact Hc. unfold conn_val. now rewrite H. Qed.

  Corollary connection_header_override : forall c, custom_free N_CONN -> o_connection o = Some c -> c <> [] ->
    header_values N_CONN hs = [strip c].
  Proof.
    intros c Hc E Hne. rewrite connection_header by exact Hc. unfold conn_val. rewrite E.
    destruct c; [congruence|reflexivity].
  Qed.

  Theorem origin_header : custom_free N_ORIGIN ->
    header_values N_ORIGIN hs = map strip (origin_vals scheme host port o).
  Proof. intros Hc. rewrite hs_eq. hv_explicit. rewrite Hc, app_nil_r. reflexivity. Qed.

  Corollary origin_header_suppressed : custom_free N_ORIGIN -> o_suppress_origin o = true ->
    header_values N_ORIGIN hs = [].
  Proof. intros Hc H. rewrite origin_header by exact Hc. unfold origin_vals. now rewrite H. Qed.

  Corollary origin_header_given : forall og, custom_free N_ORIGIN -> o_suppress_origin o = false ->
    o_origin o = Some (Some og) -> header_values N_ORIGIN hs = [strip og].
  Proof. intros og Hc H E. rewrite origin_header by exact Hc. unfold origin_vals. now rewrite H, E. Qed.

  Corollary origin_header_default : custom_free N_ORIGIN -> o_suppress_origin o = false ->
    (o_origin o = None \/ o_origin o = Some None) ->
    header_values N_ORIGIN hs =
    [strip ((if str_eqb scheme S_WSS then S_HTTPS else S_HTTP) ++ host_header host port)].
  Proof.
    intros Hc H E. rewrite origin_header by exact Hc. unfold origin_vals. rewrite H, hostport_eq.
    destruct E as [-> | ->]; destruct (str_eqb scheme S_WSS); reflexivity.
  Qed.

  Theorem protocol_header : custom_free N_PROTO ->
    header_values N_PROTO hs = map strip (proto_vals o).
  Proof. intros Hc. rewrite hs_eq. hv_explicit. rewrite Hc, app_nil_r. reflexivity. Qed.

  Corollary protocol_header_none : custom_free N_PROTO -> o_subprotocols o = [] ->
    header_values N_PROTO hs = [].
  Proof. intros Hc H. rewrite protocol_header by exact Hc. unfold proto_vals. now rewrite H. Qed.

  Corollary protocol_header_some : custom_free N_PROTO -> o_subprotocols o <> [] ->
    header_values N_PROTO hs = [strip (join [44] (o_subprotocols o))].
  Proof.
    intros Hc H. rewrite protocol_header by exact Hc. unfold proto_vals.
    destruct (o_subprotocols o); [congruence|reflexivity].
  Qed.

  Theorem cookie_header : custom_free N_COOKIE ->
    header_values N_COOKIE hs = map strip (cookie_vals server_cookie o).
  Proof. intros Hc. rewrite hs_eq. hv_explicit. rewrite Hc. reflexivity. Qed.

  (* absent when both cookies are empty *)
  Corollary cookie_header_absent : custom_free N_COOKIE ->
    server_cookie = [] -> opt_get (o_cookie o) = [] -> header_values N_COOKIE hs = [].
  Proof.
    intros Hc H1 H2. rewrite cookie_header by exact Hc. unfold cookie_vals, cookie_val.
    rewrite H1, H2. reflexivity.
  Qed.

  (* present (once) otherwise, with the "; "-join of the non-empty ones as its value ... *)
  Corollary cookie_header_present : custom_free N_COOKIE ->
    (server_cookie <> [] \/ opt_get (o_cookie o) <> []) ->
    header_values N_COOKIE hs =
    [strip (join [59; 32] (filter (fun c => negb (Nat.eqb (length c) 0)) [server_cookie; opt_get (o_cookie o)]))].
  Proof.
    intros Hc H. rewrite cookie_header by exact Hc. unfold cookie_vals, cookie_val.
    destruct server_cookie as [|a r], (opt_get (o_cookie o)) as [|b r']; cbn [filter length Nat.eqb negb join app];
      try reflexivity. destruct H; congruence.
  Qed.

  (* ... and it is the last header of the request *)
  Theorem cookie_header_last :
    (server_cookie <> [] \/ opt_get (o_cookie o) <> []) ->
    exists pre, hs = pre ++ [(N_COOKIE, strip (cookie_val server_cookie o))].
  Proof.
    intros H. rewrite hs_eq. unfold header_hs.
    assert (E : cookie_vals server_cookie o = [cookie_val server_cookie o]).
    { unfold cookie_vals, cookie_val.
      destruct server_cookie as [|a r], (opt_get (o_cookie o)) as [|b r']; cbn [filter length Nat.eqb negb join app];
        try reflexivity. destruct H; congruence. }
    rewrite E. cbn [map]. rewrite !app_assoc. eexists. reflexivity.
  Qed.

  (* custom headers sit, in the caller's order, between the protocol line and the cookie *)
  Theorem custom_headers_position :
    exists pre, hs = pre ++ map (fun v => (N_PROTO, strip v)) (proto_vals o)
                         ++ custom_hs (o_header o)
                         ++ map (fun v => (N_COOKIE, strip v)) (cookie_vals server_cookie o)
                /\ Forall (fun kv => In (fst kv) [N_UPGRADE; N_HOST; N_ORIGIN; N_KEY; N_VERSION; N_CONN]) pre.
  Proof.
    rewrite hs_eq. unfold header_hs.
    exists ([(N_UPGRADE, S_websocket)] ++ [(N_HOST, strip (host_val host port o))]
            ++ map (fun v => (N_ORIGIN, strip v)) (origin_vals scheme host port o)
            ++ (if own_key o then [(N_KEY, strip fresh_key)] else [])
            ++ (if own_version o then [(N_VERSION, V_13)] else [])
            ++ [(N_CONN, strip (conn_val o))]).
    split; [rewrite <- !app_assoc; reflexivity|].
    assert (one : forall kv : str * str, In (fst kv) [N_UPGRADE; N_HOST; N_ORIGIN; N_KEY; N_VERSION; N_CONN] ->
                  Forall (fun kv : str * str => In (fst kv) [N_UPGRADE; N_HOST; N_ORIGIN; N_KEY; N_VERSION; N_CONN]) [kv])
      by (intros; apply Forall_cons; [assumption|apply Forall_nil]).
    repeat (apply Forall_app; split).
    - apply one. cbn [In fst]; tauto.
    - apply one. cbn [In fst]; tauto.
    - apply Forall_forall. intros kv Hin. apply in_map_iff in Hin. destruct Hin as [v [<- _]].
      cbn [In fst]; tauto.
    - destruct (own_key o); [apply one; cbn [In fst]; tauto|constructor].
    - destruct (own_version o); [apply one; cbn [In fst]; tauto|constructor].
    - apply one. cbn [In fst]; tauto.
  Qed.
End Headers.

(* ---- (2c) the key: base64 of the 16 random bytes ---- *)
Lemma b64_char_facts : forall i, 0 <= i < 64 ->
  b64_val (b64_char i) = Some i /\ b64_char i <> 61 /\ is_space (b64_char i) = false.
Proof.
  assert (S : forallb (fun i => match b64_val (b64_char i) with
                                | Some j => (j =? i) && negb (b64_char i =? 61) && negb (is_space (b64_char i))
                                | None => false
                                end) (zrange 64 0) = true) by (vm_compute; reflexivity).
  intros i Hi. pose proof (forall_range _ _ _ S i ltac:(lia)) as H. cbv beta in H.
  destruct (b64_val (b64_char i)) as [j|]; [|discriminate H].
  apply andb_true_iff in H. destruct H as [H H3]. apply andb_true_iff in H. destruct H as [H1 H2].
  apply Z.eqb_eq in H1. apply negb_true_iff in H2, H3. apply Z.eqb_neq in H2. subst j. auto.
Qed.

Section B64.
  Opaque b64_char b64_val.

  Lemma b64_roundtrip_aux : forall n l, (length l <= n)%nat -> bytes_ok l ->
    b64_decode (b64_encode l) = Some l.
  Proof.
    induction n as [|n IH]; intros l Hl Hok.
    - destruct l; [reflexivity|cbn [length] in Hl; lia].
    - destruct l as [|a [|b [|c r]]]; [reflexivity| | |].
      + inversion Hok as [|? ? Ha _]; subst. unfold byte_ok in Ha.
        assert (R1 : 0 <= a / 4 < 64) by (Z.div_mod_to_equations; lia).
        assert (R2 : 0 <= a mod 4 * 16 < 64) by (Z.div_mod_to_equations; lia).
        cbn [b64_encode b64_decode].
        rewrite (proj1 (b64_char_facts _ R1)), (proj1 (b64_char_facts _ R2)).
        change (61 =? 61) with true. cbv beta iota. cbn [andb]. cbv beta iota.
        f_equal. f_equal. Z.div_mod_to_equations; lia.
      + inversion Hok as [|? ? Ha Hok1]; subst. inversion Hok1 as [|? ? Hb _]; subst.
        unfold byte_ok in Ha, Hb.
        assert (R1 : 0 <= a / 4 < 64) by (Z.div_mod_to_equations; lia).
        assert (R2 : 0 <= a mod 4 * 16 + b / 16 < 64) by (Z.div_mod_to_equations; lia).
        assert (R3 : 0 <= b mod 16 * 4 < 64) by (Z.div_mod_to_equations; lia).
        cbn [b64_encode b64_decode].
        rewrite (proj1 (b64_char_facts _ R1)), (proj1 (b64_char_facts _ R2)), (proj1 (b64_char_facts _ R3)).
        rewrite (proj2 (Z.eqb_neq _ _) (proj1 (proj2 (b64_char_facts _ R3)))).
        change (61 =? 61) with true. cbn [andb]. cbv beta iota.
        f_equal. f_equal; [|f_equal]; Z.div_mod_to_equations; lia.
      + inversion Hok as [|? ? Ha Hok1]; subst. inversion Hok1 as [|? ? Hb Hok2]; subst.
        inversion Hok2 as [|? ? Hc Hok3]; subst.
        unfold byte_ok in Ha, Hb, Hc.
        assert (R1 : 0 <= a / 4 < 64) by (Z.div_mod_to_equations; lia).
        assert (R2 : 0 <= a mod 4 * 16 + b / 16 < 64) by (Z.div_mod_to_equations; lia).
        assert (R3 : 0 <= b mod 16 * 4 + c / 64 < 64) by (Z.div_mod_to_equations; lia).
        assert (R4 : 0 <= c mod 64 < 64) by (Z.div_mod_to_equations; lia).
        cbn [b64_encode b64_decode].
        rewrite (proj1 (b64_char_facts _ R1)), (proj1 (b64_char_facts _ R2)),
                (proj1 (b64_char_facts _ R3)), (proj1 (b64_char_facts _ R4)).
        rewrite (proj2 (Z.eqb_neq _ _) (proj1 (proj2 (b64_char_facts _ R3)))).
        rewrite (proj2 (Z.eqb_neq _ _) (proj1 (proj2 (b64_char_facts _ R4)))).
        cbn [andb]. cbv beta iota.
        rewrite (IH r) by (cbn [length] in Hl; lia || exact Hok3).
        f_equal. f_equal; [|f_equal; [|f_equal]]; Z.div_mod_to_equations; lia.
  Qed.

  Theorem b64_roundtrip : forall l, bytes_ok l -> b64_decode (b64_encode l) = Some l.
  Proof. intros l H. apply (b64_roundtrip_aux (length l)); [lia|exact H]. Qed.

  (* no character of a base64 text is blank *)
  Lemma b64_no_space_aux : forall n l, (length l <= n)%nat -> bytes_ok l ->
    Forall (fun ch => is_space ch = false) (b64_encode l).
  Proof.
    induction n as [|n IH]; intros l Hl Hok.
    - destruct l; [constructor|cbn [length] in Hl; lia].
    - destruct l as [|a [|b [|c r]]]; [constructor| | |].
      + inversion Hok as [|? ? Ha _]; subst. unfold byte_ok in Ha.
        assert (R1 : 0 <= a / 4 < 64) by (Z.div_mod_to_equations; lia).
        assert (R2 : 0 <= a mod 4 * 16 < 64) by (Z.div_mod_to_equations; lia).
        cbn [b64_encode]. repeat apply Forall_cons; try apply Forall_nil; try reflexivity;
          apply b64_char_facts; assumption.
      + inversion Hok as [|? ? Ha Hok1]; subst. inversion Hok1 as [|? ? Hb _]; subst.
        unfold byte_ok in Ha, Hb.
        assert (R1 : 0 <= a / 4 < 64) by (Z.div_mod_to_equations; lia).
        assert (R2 : 0 <= a mod 4 * 16 + b / 16 < 64) by (Z.div_mod_to_equations; lia).
        assert (R3 : 0 <= b mod 16 * 4 < 64) by (Z.div_mod_to_equations; lia).
        cbn [b64_encode]. repeat apply Forall_cons; try apply Forall_nil; try reflexivity;
          apply b64_char_facts; assumption.
      + inversion Hok as [|? ? Ha Hok1]; subst. inversion Hok1 as [|? ? Hb Hok2]; subst.
        inversion Hok2 as [|? ? Hc Hok3]; subst.
        unfold byte_ok in Ha, Hb, Hc.
        assert (R1 : 0 <= a / 4 < 64) by (Z.div_mod_to_equations; lia).
        assert (R2 : 0 <= a mod 4 * 16 + b / 16 < 64) by (Z.div_mod_to_equations; lia).
        assert (R3 : 0 <= b mod 16 * 4 + c / 64 < 64) by (Z.div_mod_to_equations; lia).
        assert (R4 : 0 <= c mod 64 < 64) by (Z.div_mod_to_equations; lia).
        cbn [b64_encode]. do 4 (apply Forall_cons; [apply b64_char_facts; assumption|]).
        apply IH; [cbn [length] in Hl; lia|exact Hok3].
  Qed.
  Transparent b64_char b64_val.
End B64.

Theorem key_is_fresh_b64 : forall draw, length draw = 16%nat -> bytes_ok draw ->
  length (b64_encode draw) = 24%nat /\ b64_decode (b64_encode draw) = Some draw.
Proof.
  intros draw Hlen Hok. split; [|apply b64_roundtrip; exact Hok].
  do 16 (destruct draw as [|? draw]; [discriminate Hlen|]).
  destruct draw; [reflexivity|discriminate Hlen].
Qed.

Lemma forall_last {A} (P : A -> Prop) d : forall s, s <> [] -> Forall P s -> P (last s d).
Proof.
  induction s as [|x s IH]; intros Hne HF; [congruence|].
  inversion HF as [|? ? Hx Hs]; subst. destruct s as [|y s]; [exact Hx|].
  change (last (x :: y :: s) d) with (last (y :: s) d). apply IH; [discriminate|exact Hs].
Qed.

(* a base64 text is unchanged by str.strip(): the Sec-WebSocket-Key header carries the key itself *)
Theorem strip_b64 : forall l, bytes_ok l -> strip (b64_encode l) = b64_encode l.
Proof.
  intros l Hok. apply strip_trimmed.
  pose proof (b64_no_space_aux (length l) l (le_n _) Hok) as HF.
  destruct (b64_encode l) as [|c r] eqn:E; [reflexivity|]. unfold trimmedb.
  assert (H1 : is_space c = false) by (inversion HF; assumption).
  assert (H2 : is_space (last (c :: r) 0) = false)
    by (apply (forall_last (fun ch => is_space ch = false)); [discriminate|exact HF]).
  now rewrite H1, H2.
Qed.

Corollary key_header_b64 : forall resource scheme host port o draw server_cookie lines key target hs,
  get_handshake_headers resource scheme host port o (b64_encode draw) server_cookie = Ok (lines, key) ->
  opts_ok resource host o (b64_encode draw) server_cookie ->
  parse_request (request_bytes lines) = Some (target, hs) ->
  bytes_ok draw -> custom_free o N_KEY -> own_key o = true ->
  header_values N_KEY hs = [b64_encode draw] /\ key = b64_encode draw.
Proof.
  intros resource scheme host port o draw sc lines key target hs Hg OK Hp Hd Hc Hk.
  destruct (key_header _ _ _ _ _ _ _ _ _ _ _ Hg OK Hp Hc Hk) as [H1 H2].
  rewrite strip_b64 in H1 by exact Hd. split; assumption.
Qed.

(* ---- values without surrounding blanks: the parsed value is the value itself ---- *)
Corollary host_header_default_trimmed :
  forall resource scheme host port o fresh_key server_cookie lines key target hs,
  get_handshake_headers resource scheme host port o fresh_key server_cookie = Ok (lines, key) ->
  opts_ok resource host o fresh_key server_cookie ->
  parse_request (request_bytes lines) = Some (target, hs) ->
  custom_free o N_HOST -> opt_truthy (o_host o) = false ->
  trimmedb (host_header host port) = true ->
  header_values N_HOST hs = [host_header host port].
Proof.
  intros resource scheme host port o fk sc lines key target hs Hg OK Hp Hc Hh Ht.
  rewrite (host_header_default _ _ _ _ _ _ _ _ _ _ _ Hg OK Hp Hc Hh).
  now rewrite strip_trimmed.
Qed.

(* ---- with a header LIST, well-formed options always get the library's own key and version ---- *)
Lemma str_eqb_eq : forall a b, str_eqb a b = true -> a = b.
Proof.
  induction a as [|x a IH]; intros [|y b] H; cbn [str_eqb] in H; try discriminate; [reflexivity|].
  apply andb_true_iff in H. destruct H as [H1 H2]. apply Z.eqb_eq in H1. subst. f_equal. now apply IH.
Qed.

Lemma header_list_own_key resource host o fk sc l :
  opts_ok resource host o fk sc -> o_header o = HList l -> own_key o = true /\ own_version o = true.
Proof.
  intros OK E. pose proof (ok_header _ _ _ _ _ OK) as H. rewrite E in H.
  unfold own_key, own_version. rewrite E. cbn [hdr_has].
  assert (M : forall name, parse_header_line name = None -> mem_str name l = false).
  { intros name Hn. destruct (mem_str name l) eqn:M; [|reflexivity].
    unfold mem_str in M. apply existsb_exists in M. destruct M as [x [Hin Hx]].
    apply str_eqb_eq in Hx. subst x. rewrite Forall_forall in H. destruct (H _ Hin) as [_ Hp].
    congruence. }
  rewrite !M by reflexivity. split; apply orb_true_r.
Qed.

(* ---- the hypotheses are needed: concrete inputs ---- *)
(* header={"sec-websocket-key": "A"} : the membership test is case-sensitive, header names are not:
   the request carries TWO Sec-WebSocket-Key headers (these options satisfy opts_ok) *)
Definition cx_o_dupkey : hsopts :=
  {| o_host := None; o_origin := None; o_suppress_origin := true; o_subprotocols := [];
     o_cookie := None; o_header := HDict [(lower S_KEY, Some [65])]; o_connection := None |}.
Example duplicate_key_header :
  exists lines hs,
    get_handshake_headers [47] [119; 115] [104] 80 cx_o_dupkey [75; 75] [] = Ok (lines, [75; 75]) /\
    parse_request (request_bytes lines) = Some ([47], hs) /\
    header_values N_KEY hs = [[75; 75]; [65]].
Proof. do 2 eexists. split; [vm_compute; reflexivity|]. split; vm_compute; reflexivity. Qed.

(* origin="a\r\nX: 1" : CR/LF in an option injects a header line (violates opts_ok) *)
Definition cx_o_inject : hsopts :=
  {| o_host := None; o_origin := Some (Some [97; 13; 10; 88; 58; 32; 49]); o_suppress_origin := false;
     o_subprotocols := []; o_cookie := None; o_header := HNone; o_connection := None |}.
Example crlf_injection :
  exists lines hs,
    get_handshake_headers [47] [119; 115] [104] 80 cx_o_inject [75; 75] [] = Ok (lines, [75; 75]) /\
    parse_request (request_bytes lines) = Some ([47], hs) /\
    header_values [88] hs = [[49]].
Proof. do 2 eexists. split; [vm_compute; reflexivity|]. split; vm_compute; reflexivity. Qed.

(* ================================================================================== *)
Print Assumptions validate_sound.
Print Assumptions validate_exact.
Print Assumptions validate_complete_partial.
Print Assumptions validate_complete_no_subprotocols.
Print Assumptions validate_complete_counterexample.
Print Assumptions handshake_ok_only_if.
Print Assumptions handshake_redirect_is_not_ok.
Print Assumptions handshake_writes_once.
Print Assumptions handshake_reads_bounded.
Print Assumptions split_crlf_join.
Print Assumptions request_parse.
Print Assumptions request_wellformed.
Print Assumptions request_headers_explicit.
Print Assumptions request_target.
Print Assumptions key_used_for_validation.
Print Assumptions upgrade_header.
Print Assumptions host_header_value.
Print Assumptions host_header_default.
Print Assumptions host_header_override.
Print Assumptions host_header_default_trimmed.
Print Assumptions version_header.
Print Assumptions key_header.
Print Assumptions key_header_b64.
Print Assumptions connection_header.
Print Assumptions connection_header_default.
Print Assumptions connection_header_override.
Print Assumptions origin_header.
Print Assumptions origin_header_suppressed.
Print Assumptions origin_header_given.
Print Assumptions origin_header_default.
Print Assumptions protocol_header.
Print Assumptions protocol_header_none.
Print Assumptions protocol_header_some.
Print Assumptions cookie_header.
Print Assumptions cookie_header_absent.
Print Assumptions cookie_header_present.
Print Assumptions cookie_header_last.
Print Assumptions custom_headers_position.
Print Assumptions custom_dict_headers.
Print Assumptions header_list_own_key.
Print Assumptions b64_roundtrip.
Print Assumptions strip_b64.
Print Assumptions key_is_fresh_b64.
Print Assumptions duplicate_key_header.
Print Assumptions crlf_injection.
