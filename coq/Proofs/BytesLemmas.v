(* General lemmas on byte lists, big-endian integers and zsplit. *)
From Coq Require Import ZArith List Bool Lia ZifyBool.
From WS Require Import Base.Bytes Spec.Frame.
Import ListNotations.
Open Scope Z_scope.
Ltac Zify.zify_post_hook ::= Z.div_mod_to_equations.

Lemma zlen_nonneg {A} (l : list A) : 0 <= zlen l.
Proof. unfold zlen. lia. Qed.
Lemma zlen_app {A} (a b : list A) : zlen (a ++ b) = zlen a + zlen b.
Proof. unfold zlen. rewrite app_length. lia. Qed.
Lemma zlen_cons {A} (x : A) l : zlen (x :: l) = 1 + zlen l.
Proof. unfold zlen. cbn [length]. lia. Qed.
Lemma zlen_nil {A} : zlen (@nil A) = 0.
Proof. reflexivity. Qed.

Lemma bytes_ok_app a b : bytes_ok (a ++ b) <-> bytes_ok a /\ bytes_ok b.
Proof. unfold bytes_ok. apply Forall_app. Qed.

(* ---- ztake / zdrop ---- *)
Lemma ztake_zdrop {A} n (l : list A) : ztake n l ++ zdrop n l = l.
Proof.
  revert n; induction l as [|x r IH]; intro n; cbn [ztake zdrop]; [reflexivity|].
  destruct (n <=? 0); [reflexivity|]. cbn [app]. now rewrite IH.
Qed.
Lemma ztake_all {A} n (l : list A) : zlen l <= n -> ztake n l = l.
Proof.
  revert n; induction l as [|x r IH]; intros n H; cbn [ztake]; [reflexivity|].
  rewrite zlen_cons in H. pose proof (zlen_nonneg r).
  destruct (n <=? 0) eqn:E; [lia|]. f_equal. apply IH. lia.
Qed.
Lemma zdrop_all {A} n (l : list A) : zlen l <= n -> zdrop n l = [].
Proof.
  revert n; induction l as [|x r IH]; intros n H; cbn [zdrop]; [reflexivity|].
  rewrite zlen_cons in H. pose proof (zlen_nonneg r).
  destruct (n <=? 0) eqn:E; [lia|]. apply IH. lia.
Qed.
Lemma ztake_app {A} (a b : list A) : ztake (zlen a) (a ++ b) = a.
Proof.
  induction a as [|x a IH]; cbn [app].
  - destruct b; reflexivity.
  - cbn [ztake]. rewrite zlen_cons. pose proof (zlen_nonneg a).
    destruct (1 + zlen a <=? 0) eqn:E; [lia|]. f_equal.
    replace (1 + zlen a - 1) with (zlen a) by lia. exact IH.
Qed.
Lemma zdrop_app {A} (a b : list A) : zdrop (zlen a) (a ++ b) = b.
Proof.
  induction a as [|x a IH]; cbn [app].
  - destruct b; reflexivity.
  - cbn [zdrop]. rewrite zlen_cons. pose proof (zlen_nonneg a).
    destruct (1 + zlen a <=? 0) eqn:E; [lia|].
    replace (1 + zlen a - 1) with (zlen a) by lia. exact IH.
Qed.
Lemma ztake_zlen {A} n (l : list A) : 0 <= n <= zlen l -> zlen (ztake n l) = n.
Proof.
  revert n; induction l as [|x r IH]; intros n H; cbn [ztake].
  - rewrite zlen_nil in *. lia.
  - rewrite zlen_cons in H. destruct (n <=? 0) eqn:E.
    + rewrite zlen_nil. lia.
    + rewrite zlen_cons, IH; lia.
Qed.
Lemma zdrop_zlen {A} n (l : list A) : 0 <= n <= zlen l -> zlen (zdrop n l) = zlen l - n.
Proof.
  intro H. pose proof (f_equal zlen (ztake_zdrop n l)) as E.
  rewrite zlen_app, ztake_zlen in E; lia.
Qed.
Lemma ztake_0 {A} (l : list A) : ztake 0 l = [].
Proof. destruct l; reflexivity. Qed.
Lemma zdrop_0 {A} (l : list A) : zdrop 0 l = l.
Proof. destruct l; reflexivity. Qed.

(* ---- zsplit ---- *)
Lemma zsplit_app a r : zsplit (zlen a) (a ++ r) = Some (a, r).
Proof.
  induction a as [|x a IH].
  - cbn [app]. rewrite zlen_nil. destruct r; reflexivity.
  - cbn [app zsplit]. rewrite zlen_cons. pose proof (zlen_nonneg a).
    destruct (1 + zlen a <=? 0) eqn:E; [lia|].
    replace (1 + zlen a - 1) with (zlen a) by lia. now rewrite IH.
Qed.
Lemma zsplit_some n l a r : zsplit n l = Some (a, r) -> l = a ++ r /\ zlen a = Z.max 0 n.
Proof.
  revert n a r; induction l as [|x l IH]; intros n a r H; cbn [zsplit] in H.
  - destruct (n <=? 0) eqn:E; [|discriminate]. inversion H; subst. split; [reflexivity|rewrite zlen_nil; lia].
  - destruct (n <=? 0) eqn:E.
    + inversion H; subst. split; [reflexivity|rewrite zlen_nil; lia].
    + destruct (zsplit (n - 1) l) as [[a' c]|] eqn:E2; [|discriminate].
      inversion H; subst. destruct (IH _ _ _ E2) as [-> Hl]. split; [reflexivity|].
      rewrite zlen_cons. lia.
Qed.
Lemma zsplit_none n l : zsplit n l = None -> zlen l < n.
Proof.
  revert n; induction l as [|x l IH]; intros n H; cbn [zsplit] in H.
  - destruct (n <=? 0) eqn:E; [discriminate|]. rewrite zlen_nil. lia.
  - destruct (n <=? 0) eqn:E; [discriminate|].
    destruct (zsplit (n - 1) l) as [[a' c]|] eqn:E2; [discriminate|].
    apply IH in E2. rewrite zlen_cons. lia.
Qed.
Lemma zsplit_short n l : zlen l < n -> zsplit n l = None.
Proof.
  intro H. destruct (zsplit n l) as [[a r]|] eqn:E; [|reflexivity].
  apply zsplit_some in E as [-> Hl]. rewrite zlen_app in H. pose proof (zlen_nonneg r). lia.
Qed.

(* ---- big-endian ---- *)
Lemma be_encode_length k n : length (be_encode k n) = k.
Proof. revert n; induction k as [|k IH]; intro n; cbn [be_encode]; [reflexivity|]. rewrite app_length, IH. cbn. lia. Qed.
Lemma be_encode_zlen k n : zlen (be_encode k n) = Z.of_nat k.
Proof. unfold zlen. now rewrite be_encode_length. Qed.

Lemma be_decode_app a b : be_decode (a ++ [b]) = be_decode a * 256 + b.
Proof. unfold be_decode. rewrite fold_left_app. reflexivity. Qed.

Lemma be_roundtrip k n : 0 <= n < 256 ^ Z.of_nat k -> be_decode (be_encode k n) = n.
Proof.
  revert n; induction k as [|k IH]; intros n H.
  - cbn in *. lia.
  - cbn [be_encode]. rewrite be_decode_app, IH.
    + lia.
    + rewrite Nat2Z.inj_succ, Z.pow_succ_r in H by lia. lia.
Qed.

Lemma be_encode_ok k n : bytes_ok (be_encode k n).
Proof.
  revert n; induction k as [|k IH]; intro n; cbn [be_encode]; [constructor|].
  apply bytes_ok_app. split; [apply IH|]. constructor; [|constructor]. unfold byte_ok. lia.
Qed.

Lemma be_decode_bound l : bytes_ok l -> 0 <= be_decode l < 256 ^ zlen l.
Proof.
  induction l as [|b l IH] using rev_ind; intro H.
  - cbn. lia.
  - apply bytes_ok_app in H as [Hl Hb]. inversion Hb as [|? ? Hb' _]; subst. unfold byte_ok in Hb'.
    rewrite be_decode_app, zlen_app. specialize (IH Hl).
    change (zlen [b]) with 1. rewrite Z.pow_add_r by (pose proof (zlen_nonneg l); lia).
    change (256 ^ 1) with 256. nia.
Qed.

Lemma be_encode_decode l : bytes_ok l -> be_encode (length l) (be_decode l) = l.
Proof.
  induction l as [|b l IH] using rev_ind; intro H; [reflexivity|].
  apply bytes_ok_app in H as [Hl Hb]. inversion Hb as [|? ? Hb' _]; subst. unfold byte_ok in Hb'.
  rewrite app_length. cbn [length]. replace (length l + 1)%nat with (S (length l)) by lia.
  cbn [be_encode]. rewrite be_decode_app.
  replace ((be_decode l * 256 + b) / 256) with (be_decode l) by lia.
  replace ((be_decode l * 256 + b) mod 256) with b by lia.
  now rewrite IH.
Qed.
