(* C08: the closing handshake and the connection state machine of one WebSocket object,
   over any sequence of public API calls and any transport script. *)
From Coq Require Import ZArith List Bool Lia ZifyBool.
From WS Require Import Base.Res Base.Bytes Base.GenPrelude Spec.Frame Gen.GenUtils Gen.GenAbnf Gen.GenCore
  Model.Xport Model.Recv Model.Send Model.Conn Model.Script
  Proofs.BytesLemmas Proofs.FrameCodec Proofs.SendProof Proofs.RecvProof Proofs.CloseSpec.
Import ListNotations.
Open Scope Z_scope.
Ltac Zify.zify_post_hook ::= Z.div_mod_to_equations.

(* ================================================================================== *)
(* 1. Facts about GENERATED definitions: everything below this block uses only these   *)
(*    (and hdr_byte / format_checks / opcodes_range / format_is_encode of SendProof).  *)
(* ================================================================================== *)

Lemma g_OPCODE_CLOSE : OPCODE_CLOSE = 8.  Proof. reflexivity. Qed.
Lemma g_OPCODE_PING : OPCODE_PING = 9.    Proof. reflexivity. Qed.
Lemma g_OPCODE_PONG : OPCODE_PONG = 10.   Proof. reflexivity. Qed.
Lemma g_close_in : In OPCODE_CLOSE OPCODES. Proof. cbv. tauto. Qed.
Lemma g_ping_in : In OPCODE_PING OPCODES.   Proof. cbv. tauto. Qed.
Lemma g_pong_in : In OPCODE_PONG OPCODES.   Proof. cbv. tauto. Qed.

Lemma g_close_bad st : close_bad_status st = ((st <? 0) || (st >=? 65536)).
Proof. reflexivity. Qed.
Lemma g_send_close_bad st : send_close_bad_status st = ((st <? 0) || (st >=? 65536)).
Proof. reflexivity. Qed.

Lemma in_opcodes_iff op : existsb (Z.eqb op) OPCODES = true <-> In op OPCODES.
Proof.
  rewrite existsb_exists. split.
  - intros (y & Hy & E). apply Z.eqb_eq in E. now subst.
  - intro H. exists op. split; [assumption|apply Z.eqb_refl].
Qed.

(* (1) the first byte of every frame the formatter produces *)
Lemma format_first_byte : forall fin op p k w, format_frame fin op p k = Ok w ->
  exists t, w = (Z.lor (Z.lor (Z.lor (Z.lor (Z.shiftl fin 7) (Z.shiftl 0 6)) (Z.shiftl 0 5)) (Z.shiftl 0 4)) op) :: t.
Proof.
  intros fin op p k w. unfold format_frame, create_frame_fields, abnf_format. intro H.
  destruct (existsb _ [fin; 0; 0; 0]); [discriminate|].
  destruct (negb (existsb (Z.eqb op) OPCODES)); [discriminate|].
  cbv zeta in H. destruct (zlen p >=? LENGTH_63); [discriminate|].
  change (negb (negb (1 =? 0))) with false in H. cbv iota in H.
  destruct (zlen p <? LENGTH_7); [|destruct (zlen p <? LENGTH_16)];
    inversion H; rewrite <- ?app_assoc; cbn [app]; eexists; reflexivity.
Qed.

Lemma format_frame_opcode fin op p k w : format_frame fin op p k = Ok w -> In op OPCODES.
Proof.
  unfold format_frame, create_frame_fields, abnf_format. intro H.
  destruct (existsb _ [fin; 0; 0; 0]); [discriminate|].
  destruct (existsb (Z.eqb op) OPCODES) eqn:E; [|discriminate].
  now apply in_opcodes_iff.
Qed.

(* the formatter refuses payloads of 2^63 bytes or more *)
Lemma format_frame_big op p k : In op OPCODES -> 2 ^ 63 <= zlen p ->
  format_frame 1 op p k = Raise ValueErr.
Proof.
  intros Ho Hl. unfold format_frame, create_frame_fields, abnf_format.
  destruct (format_checks 1 op ltac:(cbn; tauto) Ho) as [C1 C2]. rewrite C1, C2.
  rewrite pow63 in Hl. cbv zeta. unfold LENGTH_63.
  replace (zlen p >=? 9223372036854775808) with true by lia. reflexivity.
Qed.

Lemma format_frame_total op p k : In op OPCODES -> zlen p < 2 ^ 63 ->
  exists d, format_frame 1 op p k = Ok d.
Proof.
  intros Ho Hl. unfold format_frame, create_frame_fields, abnf_format.
  destruct (format_checks 1 op ltac:(cbn; tauto) Ho) as [C1 C2]. rewrite C1, C2.
  rewrite pow63 in Hl. cbv zeta. unfold LENGTH_63.
  replace (zlen p >=? 9223372036854775808) with false by lia.
  change (negb (negb (1 =? 0))) with false. cbv iota.
  destruct (zlen p <? LENGTH_7); [|destruct (zlen p <? LENGTH_16)]; eexists; reflexivity.
Qed.

(* ---- consequences, free of generated names ---- *)

Lemma format_first_byte_fin1 op p k w : format_frame 1 op p k = Ok w ->
  In op OPCODES /\ exists t, w = (128 + op) :: t.
Proof.
  intro H. pose proof (format_frame_opcode _ _ _ _ _ H) as Ho. split; [exact Ho|].
  destruct (format_first_byte _ _ _ _ _ H) as [t ->]. exists t.
  rewrite (hdr_byte 1 op ltac:(cbn; tauto) Ho). f_equal; lia.
Qed.

Lemma format_first_byte_mod op p k w : format_frame 1 op p k = Ok w ->
  exists b t, w = b :: t /\ b = 128 + op /\ b mod 16 = op.
Proof.
  intro H. destruct (format_first_byte_fin1 _ _ _ _ H) as [Ho [t ->]].
  pose proof (opcodes_range op Ho). exists (128 + op), t. repeat split; lia.
Qed.

Lemma format_close_write op p k w : format_frame 1 op p k = Ok w ->
  is_close_write (IWrite w) = (op =? 8).
Proof.
  intro H. destruct (format_first_byte_mod _ _ _ _ H) as (b & t & -> & _ & Hb).
  cbn [is_close_write]. rewrite Hb. reflexivity.
Qed.

(* (4) status range *)
Lemma bad_status_iff : forall st, close_bad_status st = true <-> (st < 0 \/ st >= 65536).
Proof. intro st. rewrite g_close_bad. lia. Qed.
Lemma send_bad_status_iff : forall st, send_close_bad_status st = true <-> (st < 0 \/ st >= 65536).
Proof. intro st. rewrite g_send_close_bad. lia. Qed.

(* ================================================================================== *)
(* 2. Measures on the transport log and the per-call effect relation                   *)
(* ================================================================================== *)

Definition is_read (e : io) : bool := match e with IRead _ => true | _ => false end.
Definition icl (l : list io) : nat := length (filter is_transport_close l).
Definition b2n (b : bool) : nat := if b then 1%nat else 0%nat.
Definition live (w : ws) : bool := match sock w with Some _ => true | None => false end.

Lemma cc_app a b : close_count (a ++ b) = (close_count a + close_count b)%nat.
Proof. unfold close_count. now rewrite filter_app, app_length. Qed.
Lemma icl_app a b : icl (a ++ b) = (icl a + icl b)%nat.
Proof. unfold icl. now rewrite filter_app, app_length. Qed.

Lemma reads_cc l : forallb is_read l = true -> close_count l = 0%nat.
Proof.
  induction l as [|e r IH]; [reflexivity|]. cbn [forallb]. intro H.
  apply andb_true_iff in H as [H1 H2]. destruct e; try discriminate.
  unfold close_count in *. cbn [filter is_close_write]. auto.
Qed.
Lemma reads_icl l : forallb is_read l = true -> icl l = 0%nat.
Proof.
  induction l as [|e r IH]; [reflexivity|]. cbn [forallb]. intro H.
  apply andb_true_iff in H as [H1 H2]. destruct e; try discriminate.
  unfold icl in *. cbn [filter is_transport_close]. auto.
Qed.

(* close frames written so far, plus one while the object may still write one *)
Definition Phi (w : ws) : nat := (close_count (all_io w) + b2n (connected w))%nat.
(* transport closes so far, plus one while a transport is still held *)
Definition Psi (w : ws) : nat := (icl (all_io w) + b2n (live w))%nat.

Definition step (n : nat) (w w' : ws) : Prop :=
  (connected w = false -> connected w' = false) /\
  (sock w = None -> sock w' = None /\ all_io w' = all_io w) /\
  (Phi w' <= Phi w + n)%nat /\ (Psi w' <= Psi w)%nat /\ (ws_inv w -> ws_inv w').

Lemma step_refl w : step 0 w w.
Proof. unfold step. repeat split; auto; lia. Qed.

Lemma step_weaken n m w w' : (n <= m)%nat -> step n w w' -> step m w w'.
Proof. unfold step. intros H (A & B & C & D & E). repeat split; auto; try lia; now apply B. Qed.

Lemma step_trans n m w w' w'' : step n w w' -> step m w' w'' -> step (n + m) w w''.
Proof.
  unfold step. intros (A & B & C & D & E) (A' & B' & C' & D' & E').
  split; [auto|]. split; [|split; [lia|split; [lia|auto]]].
  intro H. destruct (B H) as [H1 H2]. destruct (B' H1) as [H3 H4]. split; [exact H3|congruence].
Qed.

Lemma step_trans0 w w' w'' : step 0 w w' -> step 0 w' w'' -> step 0 w w''.
Proof. apply (step_trans 0 0). Qed.

(* same components, another bound on Phi *)
Lemma step_phi n m w w' : step n w w' -> (Phi w' <= Phi w + m)%nat -> step m w w'.
Proof. unfold step. intros (A & B & C & D & E) H. repeat split; auto; now apply B. Qed.

(* every primitive transition appends to the log *)
Lemma step_intro n w w' l :
  all_io w' = all_io w ++ l ->
  (connected w = false -> connected w' = false) ->
  (sock w = None -> sock w' = None /\ l = []) ->
  (close_count l + b2n (connected w') <= b2n (connected w) + n)%nat ->
  (icl l + b2n (live w') <= b2n (live w))%nat ->
  (sock w' = None -> connected w' = false) \/ (sock w' = None -> sock w = None) /\ connected w' = connected w ->
  step n w w'.
Proof.
  intros Hio Hc Hs Hphi Hpsi Hinv. unfold step, Phi, Psi. rewrite Hio, cc_app, icl_app.
  split; [exact Hc|]. split; [|split; [lia|split; [lia|]]].
  - intro H. destruct (Hs H) as [H1 ->]. split; [exact H1|apply app_nil_r].
  - unfold ws_inv. intros Hi H. destruct Hinv as [Hinv|[Hinv1 Hinv2]]; [auto|].
    rewrite Hinv2. auto.
Qed.

(* transitions that touch neither the flag nor the transport *)
Lemma step_same w w' :
  connected w' = connected w -> sock w' = sock w -> past w' = past w -> step 0 w w'.
Proof.
  intros Hc Hs Hp. apply (step_intro 0 w w' []).
  - unfold all_io. rewrite Hs, Hp. now rewrite app_nil_r.
  - congruence.
  - intro H. split; [congruence|reflexivity].
  - rewrite Hc. cbn. lia.
  - unfold live. rewrite Hs. cbn. lia.
  - right. split; [congruence|exact Hc].
Qed.

(* the live transport logs one more call *)
Lemma step_log n w w' x e :
  sock w = Some x -> sock w' = Some (xlog x e) -> past w' = past w -> connected w' = connected w ->
  (b2n (is_close_write e) <= n)%nat -> is_transport_close e = false ->
  step n w w'.
Proof.
  intros Hs Hs' Hp Hc Hn Ht. apply (step_intro n w w' [e]).
  - unfold all_io. rewrite Hs, Hs', Hp. cbn [xlog iolog]. now rewrite app_assoc.
  - congruence.
  - congruence.
  - rewrite Hc. unfold close_count. cbn [filter]. destruct (is_close_write e); cbn [length b2n] in *; lia.
  - unfold live, icl. rewrite Hs, Hs'. cbn [filter]. rewrite Ht. cbn. lia.
  - right. split; [congruence|exact Hc].
Qed.

(* the transport is released: reads l, then close() *)
Lemma step_release w w' x l :
  sock w = Some x -> sock w' = None -> connected w' = false ->
  past w' = past w ++ (iolog x ++ l) ++ [IClose] -> forallb is_read l = true ->
  step 0 w w'.
Proof.
  intros Hs Hs' Hc Hp Hl. apply (step_intro 0 w w' (l ++ [IClose])).
  - unfold all_io. rewrite Hs, Hs', Hp. rewrite app_nil_r, <- !app_assoc. reflexivity.
  - auto.
  - congruence.
  - rewrite Hc, cc_app, (reads_cc l Hl). cbn. lia.
  - unfold live. rewrite Hs, Hs', icl_app, (reads_icl l Hl). cbn. lia.
  - left. auto.
Qed.

(* the flag is cleared, nothing else *)
Definition disc (w : ws) : ws := upd w false (sock w) (past w) (fb w) (cf w) (keys w).

Lemma disc_step w : step 0 w (disc w) /\ (Phi (disc w) + b2n (connected w) = Phi w)%nat.
Proof.
  split.
  - apply (step_intro 0 w (disc w) []).
    + unfold all_io, disc, upd. cbn [sock past]. now rewrite app_nil_r.
    + reflexivity.
    + auto.
    + cbn. lia.
    + unfold live, disc, upd. cbn [sock]. cbn. lia.
    + left. reflexivity.
  - unfold Phi, disc, all_io, upd. cbn [sock past connected b2n]. lia.
Qed.

(* ================================================================================== *)
(* 3. recv_frame only reads                                                            *)
(* ================================================================================== *)

Definition grows (x x' : xport) : Prop :=
  exists l, iolog x' = iolog x ++ l /\ forallb is_read l = true.

Lemma grows_refl x : grows x x.
Proof. exists []. split; [now rewrite app_nil_r|reflexivity]. Qed.
Lemma grows_trans x y z : grows x y -> grows y z -> grows x z.
Proof.
  intros (l & H1 & H2) (l' & H3 & H4). exists (l ++ l'). split.
  - rewrite H3, H1, app_assoc. reflexivity.
  - rewrite forallb_app, H2, H4. reflexivity.
Qed.
Lemma sock_recv_grows k x r x' : sock_recv k x = (r, x') -> grows x x'.
Proof. intro H. apply sock_recv_log in H. exists [IRead k]. split; [exact H|reflexivity]. Qed.

Lemma strict_loop_grows : forall fuel sh buf x r buf' x',
  strict_loop fuel sh buf x = (r, buf', x') -> grows x x'.
Proof.
  induction fuel as [|k IH]; intros sh buf x r buf' x' H; rewrite strict_loop_eq in H.
  - destruct (sh >? 0); inversion H; subst; apply grows_refl.
  - destruct (sh >? 0); [|inversion H; subst; apply grows_refl].
    destruct (sock_recv (Z.min 16384 sh) x) as [[bs|e] x0] eqn:E; apply sock_recv_grows in E.
    + apply IH in H. eapply grows_trans; eassumption.
    + inversion H; subst. exact E.
Qed.

Lemma recv_strict_grows fuel n buf x r buf' x' :
  recv_strict fuel n buf x = (r, buf', x') -> grows x x'.
Proof.
  unfold recv_strict. intro H.
  destruct (strict_loop fuel (strict_shortage n buf) buf x) as [[[sh|e] b0] x0] eqn:E;
    apply strict_loop_grows in E.
  - destruct (strict_finish n sh b0). inversion H; subst. exact E.
  - inversion H; subst. exact E.
Qed.

Lemma recv_frame_grows fuel skip fb x r fb' x' :
  recv_frame fuel skip fb x = (r, fb', x') -> grows x x'.
Proof.
  intro H.
  pose proof (recv_frame_generic (fun x out => grows x (snd out)) fuel skip) as G.
  cbv beta in G. specialize (G
    ltac:(intros; cbn [snd]; eapply recv_strict_grows; eauto)
    ltac:(intros ? ? ? ? ? ? ? E IH; eapply grows_trans; [eapply recv_strict_grows; exact E|exact IH])
    ltac:(intros; cbn [snd]; eapply recv_strict_grows; eauto)
    fb x).
  rewrite H in G. exact G.
Qed.

(* ================================================================================== *)
(* 4. The effect of each method                                                        *)
(* ================================================================================== *)

(* ---- send_frame ---- *)
Lemma ws_send_cases w p op r w' : ws_send w p op = (r, w') ->
  (r = Raise OutOfFuel /\ keys w = [] /\ w' = w) \/
  exists k ks, keys w = k :: ks /\
   ((exists e, format_frame 1 op p k = Raise e /\ r = Raise e /\
               w' = upd w (connected w) (sock w) (past w) (fb w) (cf w) ks) \/
    (exists d, format_frame 1 op p k = Ok d /\
       ((sock w = None /\ r = Raise ConnClosed /\
         w' = upd w (connected w) None (past w) (fb w) (cf w) ks) \/
        (exists x, sock w = Some x /\ r = Ok (zlen d) /\
         w' = upd w (connected w) (Some (xlog x (IWrite d))) (past w) (fb w) (cf w) ks)))).
Proof.
  unfold ws_send. intro H. destruct (keys w) as [|k ks].
  - left. inversion H. auto.
  - right. exists k, ks. split; [reflexivity|].
    destruct (format_frame 1 op p k) as [d|e].
    + right. exists d. split; [reflexivity|]. destruct (sock w) as [x|].
      * right. exists x. inversion H. auto.
      * left. inversion H. auto.
    + left. exists e. inversion H. auto.
Qed.

Lemma ws_send_step w p op r w' : ws_send w p op = (r, w') ->
  step 1 w w' /\ (op <> 8 -> step 0 w w') /\ connected w' = connected w.
Proof.
  intro H. destruct (ws_send_cases _ _ _ _ _ H) as [(_ & _ & ->)|(k & ks & Hk & [(e & _ & _ & ->)|(d & Hd & [(Hs & _ & ->)|(x & Hs & _ & ->)])])].
  - split; [apply (step_weaken 0); [lia|apply step_refl]|]. split; [intros; apply step_refl|reflexivity].
  - assert (S : step 0 w (upd w (connected w) (sock w) (past w) (fb w) (cf w) ks)) by (apply step_same; reflexivity).
    split; [apply (step_weaken 0); [lia|exact S]|]. split; [intros; exact S|reflexivity].
  - assert (S : step 0 w (upd w (connected w) None (past w) (fb w) (cf w) ks)) by (apply step_same; [reflexivity|now rewrite Hs|reflexivity]).
    split; [apply (step_weaken 0); [lia|exact S]|]. split; [intros; exact S|reflexivity].
  - pose proof (format_close_write _ _ _ _ Hd) as Hcw.
    split; [|split; [intro Hop|reflexivity]].
    + apply (step_log 1 _ _ x (IWrite d)); try reflexivity; [exact Hs|].
      destruct (is_close_write (IWrite d)); cbn; lia.
    + apply (step_log 0 _ _ x (IWrite d)); try reflexivity; [exact Hs|].
      rewrite Hcw. replace (op =? 8) with false by lia. cbn. lia.
Qed.

(* the common core of send_close and close: clear the flag, then send the close frame *)
Lemma close_core_step w p op r w2 : ws_send (disc w) p op = (r, w2) ->
  step 1 w w2 /\ (connected w = true -> step 0 w w2) /\ connected w2 = false.
Proof.
  intro H. destruct (ws_send_step _ _ _ _ _ H) as (S1 & _ & Hc).
  destruct (disc_step w) as [S0 HP].
  pose proof (step_trans _ _ _ _ _ S0 S1) as S. cbn [Nat.add] in S.
  split; [exact S|]. split; [|exact Hc].
  intro Hcon. apply (step_phi 1); [exact S|].
  destruct S1 as (_ & _ & P1 & _). rewrite Hcon in HP. cbn [b2n] in HP. lia.
Qed.

Lemma ws_send_close_step w st rs r w' : ws_send_close w st rs = (r, w') ->
  step 1 w w' /\ (connected w = true -> step 0 w w').
Proof.
  unfold ws_send_close. intro H. destruct (send_close_bad_status st).
  - inversion H; subst. split; [apply (step_weaken 0); [lia|apply step_refl]|intros; apply step_refl].
  - change (upd w false (sock w) (past w) (fb w) (cf w) (keys w)) with (disc w) in H.
    destruct (ws_send (disc w) (close_body st rs) OPCODE_CLOSE) as [[n|e] w2] eqn:E;
      inversion H; subst; destruct (close_core_step _ _ _ _ _ E) as (A & B & _); auto.
Qed.

(* ---- recv_frame ---- *)
Lemma ws_recv_frame_cases w r w' : ws_recv_frame w = (r, w') ->
  (sock w = None /\ r = Raise ConnClosed /\ w' = upd w false None (past w) (fb w) (cf w) (keys w)) \/
  (exists x fb' x' l, sock w = Some x /\ iolog x' = iolog x ++ l /\ forallb is_read l = true /\
     ((r = Raise ConnClosed /\
       w' = upd w false None (past w ++ iolog x' ++ [IClose]) fb' (cf w) (keys w)) \/
      (r <> Raise ConnClosed /\
       w' = upd w (connected w) (Some x') (past w) fb' (cf w) (keys w)))).
Proof.
  unfold ws_recv_frame. intro H. destruct (sock w) as [x|] eqn:Es.
  - right. destruct (recv_frame (fuel_for (inbox x)) (skip_utf8 w) (fb w) x) as [[r0 fb'] x'] eqn:E.
    destruct (recv_frame_grows _ _ _ _ _ _ _ E) as (l & Hl & Hr).
    exists x, fb', x', l. split; [reflexivity|]. split; [exact Hl|]. split; [exact Hr|].
    destruct r0 as [a|e]; [right; inversion H; split; [discriminate|reflexivity]|].
    destruct e; try (right; inversion H; split; [discriminate|reflexivity]).
    left. inversion H. auto.
  - left. inversion H. auto.
Qed.

Lemma ws_recv_frame_step w r w' : ws_recv_frame w = (r, w') -> step 0 w w'.
Proof.
  intro H. destruct (ws_recv_frame_cases _ _ _ H) as [(Hs & _ & ->)|(x & fb' & x' & l & Hs & Hl & Hr & [(_ & ->)|(_ & ->)])].
  - apply (step_intro 0 _ _ []).
    + unfold all_io, upd. cbn [sock past]. rewrite Hs, !app_nil_r. reflexivity.
    + reflexivity.
    + auto.
    + cbn. lia.
    + unfold live, upd. cbn [sock]. cbn. lia.
    + left. reflexivity.
  - apply (step_release _ _ x l); try reflexivity; [exact Hs| |exact Hr].
    unfold upd. cbn [past]. rewrite Hl. reflexivity.
  - apply (step_intro 0 _ _ l).
    + unfold all_io, upd. cbn [sock past]. rewrite Hs, Hl, app_assoc. reflexivity.
    + auto.
    + congruence.
    + rewrite (reads_cc l Hr). unfold upd. cbn [connected]. lia.
    + rewrite (reads_icl l Hr). unfold live, upd. cbn [sock]. rewrite Hs. lia.
    + right. split; [discriminate|reflexivity].
Qed.

(* ---- automatic replies ---- *)
Lemma hf_writes_cases fire skip control conn cf f :
  s_writes (handle_frame fire skip control conn cf f) = [] \/
  (exists d, s_writes (handle_frame fire skip control conn cf f) = [WPong d]) \/
  (s_writes (handle_frame fire skip control conn cf f) = [WClose] /\ conn = true).
Proof.
  unfold handle_frame.
  destruct (is_msg_opcode (a_opcode f) || (a_opcode f =? OPCODE_CONT)).
  - left. destruct (cf_validate cf f); [|reflexivity].
    destruct (cf_is_fire fire f); [|reflexivity].
    destruct (cf_extract fire skip (cf_add cf f) f) as [[[op0 f']|e] cf3]; reflexivity.
  - destruct (a_opcode f =? OPCODE_CLOSE).
    + cbn [s_writes]. destruct conn; [right; right; split; reflexivity|left; reflexivity].
    + destruct (a_opcode f =? OPCODE_PING).
      * destruct (ping_reply_ok (a_data f)); [right; left; eexists; reflexivity|left; reflexivity].
      * destruct (a_opcode f =? OPCODE_PONG); left; reflexivity.
Qed.

Lemma do_writes_nil w r w' : do_writes w [] = (r, w') -> step 0 w w'.
Proof. cbn. intro H. inversion H. apply step_refl. Qed.

Lemma do_writes_pong w d r w' : do_writes w [WPong d] = (r, w') -> step 0 w w'.
Proof.
  cbn [do_writes]. intro H. destruct (ws_send w d OPCODE_PONG) as [[n|e] w1] eqn:E;
    inversion H; subst; apply (ws_send_step _ _ _ _ _ E); rewrite g_OPCODE_PONG; lia.
Qed.

Lemma do_writes_close w r w' : connected w = true -> do_writes w [WClose] = (r, w') -> step 0 w w'.
Proof.
  cbn [do_writes]. intros Hc H. destruct (ws_send_close w close_default_status []) as [[n|e] w1] eqn:E;
    inversion H; subst; apply (ws_send_close_step _ _ _ _ _ E); exact Hc.
Qed.

(* ---- recv_data_frame ---- *)
Lemma ws_recv_data_frame_step : forall fuel control w r w',
  ws_recv_data_frame fuel control w = (r, w') -> step 0 w w'.
Proof.
  induction fuel as [|k IH]; intros control w r w' H; cbn [ws_recv_data_frame] in H.
  - inversion H. apply step_refl.
  - destruct (ws_recv_frame w) as [[f|e] w1] eqn:E1; [|inversion H; subst; eapply ws_recv_frame_step; exact E1].
    apply ws_recv_frame_step in E1. cbv zeta in H.
    set (st := handle_frame (fire_cont w1) (skip_utf8 w1) control (connected w1) (cf w1) f) in *.
    set (w2 := upd w1 (connected w1) (sock w1) (past w1) (fb w1) (s_cf st) (keys w1)) in *.
    assert (S2 : step 0 w1 w2) by (apply step_same; reflexivity).
    assert (S3 : forall r3 w3, do_writes w2 (s_writes st) = (r3, w3) -> step 0 w2 w3).
    { intros r3 w3 Hd. subst st.
      destruct (hf_writes_cases (fire_cont w1) (skip_utf8 w1) control (connected w1) (cf w1) f)
        as [Ew|[[d Ew]|[Ew Hc]]]; rewrite Ew in Hd.
      - eapply do_writes_nil; exact Hd.
      - eapply do_writes_pong; exact Hd.
      - eapply do_writes_close; [|exact Hd]. exact Hc. }
    destruct (do_writes w2 (s_writes st)) as [[u|e] w3] eqn:E3.
    + pose proof (S3 _ _ eq_refl) as S3'.
      assert (S : step 0 w w3) by (eapply step_trans0; [exact E1|eapply step_trans0; [exact S2|exact S3']]).
      destruct (s_out st) as [op f'| |e].
      * inversion H; subst. exact S.
      * eapply step_trans0; [exact S|]. eapply IH; exact H.
      * inversion H; subst. exact S.
    + inversion H; subst. eapply step_trans0; [exact E1|eapply step_trans0; [exact S2|eapply S3; reflexivity]].
Qed.

(* ---- close ---- *)
Lemma close_wait_step : forall fuel w, step 0 w (close_wait fuel w).
Proof.
  induction fuel as [|k IH]; intro w; cbn [close_wait]; [apply step_refl|].
  destruct (ws_recv_frame w) as [[f|e] w1] eqn:E; apply ws_recv_frame_step in E; [|exact E].
  destruct (a_opcode f =? OPCODE_CLOSE); [exact E|]. eapply step_trans0; [exact E|apply IH].
Qed.

Lemma log_io_step w e : is_close_write e = false -> is_transport_close e = false -> step 0 w (log_io w e).
Proof.
  intros H1 H2. unfold log_io. destruct (sock w) as [x|] eqn:Es; [|apply step_refl].
  apply (step_log 0 _ _ x e); try reflexivity; [exact Es| |exact H2]. rewrite H1. cbn. lia.
Qed.

Lemma ws_shutdown_step w : step 0 w (ws_shutdown w).
Proof.
  unfold ws_shutdown. destruct (sock w) as [x|] eqn:Es; [|apply step_refl].
  apply (step_release _ _ x []); try reflexivity; [exact Es|].
  unfold upd. cbn [past]. now rewrite app_nil_r.
Qed.

Lemma ws_close_step w st rs r w' : ws_close w st rs = (r, w') -> step 0 w w'.
Proof.
  unfold ws_close. intro H. destruct (connected w) eqn:Hc; cbn [negb] in H.
  - destruct (close_bad_status st); [inversion H; apply step_refl|].
    change (upd w false (sock w) (past w) (fb w) (cf w) (keys w)) with (disc w) in H.
    inversion H; subst. clear H.
    destruct (ws_send (disc w) (close_body st rs) OPCODE_CLOSE) as [[n|e] w2] eqn:E;
      destruct (close_core_step _ _ _ _ _ E) as (_ & B & _); specialize (B Hc).
    + eapply step_trans0; [exact B|].
      eapply step_trans0; [apply (log_io_step w2 ISetTimeout); reflexivity|].
      eapply step_trans0; [apply close_wait_step|].
      eapply step_trans0; [apply (log_io_step _ ISetTimeout); reflexivity|].
      eapply step_trans0; [apply (log_io_step _ IShutdown); reflexivity|].
      apply ws_shutdown_step.
    + eapply step_trans0; [exact B|apply ws_shutdown_step].
  - inversion H. apply ws_shutdown_step.
Qed.

(* ---- recv ---- *)
Lemma ws_recv_step w : step 0 w (snd (ws_recv w)).
Proof.
  unfold ws_recv. destruct (ws_recv_data_frame (rdf_fuel w) false w) as [[[op f]|e] w'] eqn:E;
    apply ws_recv_data_frame_step in E; [|exact E].
  destruct (op =? OPCODE_TEXT); [destruct (validate_utf8 (a_data f)); exact E|].
  destruct (op =? OPCODE_BINARY); exact E.
Qed.

(* ---- one public call ---- *)
Lemma step01 w w' : step 0 w w' -> step 1 w w'.
Proof. apply step_weaken. lia. Qed.

Lemma run_op_step w o :
  step 1 w (snd (run_op w o)) /\ (implicit_only o = true -> step 0 w (snd (run_op w o))).
Proof.
  assert (G : forall w', step 0 w w' -> step 1 w w' /\ (implicit_only o = true -> step 0 w w'))
    by (intros w' S; split; [now apply step01|intros _; exact S]).
  destruct o as [|c| |op p|p|p|st rs|st rs|]; cbn [run_op].
  - destruct (ws_recv_frame w) as [[a|e] w'] eqn:E; apply ws_recv_frame_step in E; cbn [snd]; auto.
  - destruct (ws_recv_data_frame (rdf_fuel w) c w) as [[[op a]|e] w'] eqn:E;
      apply ws_recv_data_frame_step in E; cbn [snd]; auto.
  - apply G, ws_recv_step.
  - destruct (ws_send w p op) as [[n|e] w'] eqn:E; destruct (ws_send_step _ _ _ _ _ E) as (A & B & _);
      cbn [snd implicit_only]; (split; [exact A|]); intro Hi; apply B; intro; subst op; discriminate Hi.
  - destruct (ws_send w p OPCODE_PING) as [[n|e] w'] eqn:E; destruct (ws_send_step _ _ _ _ _ E) as (_ & B & _);
      cbn [snd]; apply G, B; rewrite g_OPCODE_PING; lia.
  - destruct (ws_send w p OPCODE_PONG) as [[n|e] w'] eqn:E; destruct (ws_send_step _ _ _ _ _ E) as (_ & B & _);
      cbn [snd]; apply G, B; rewrite g_OPCODE_PONG; lia.
  - unfold of_unit. destruct (ws_send_close w st rs) as [[u|e] w'] eqn:E;
      destruct (ws_send_close_step _ _ _ _ _ E) as (A & _); cbn [snd implicit_only];
      (split; [exact A|discriminate]).
  - unfold of_unit. destruct (ws_close w st rs) as [[u|e] w'] eqn:E; apply ws_close_step in E; cbn [snd]; auto.
  - cbn [snd]. apply G, ws_shutdown_step.
Qed.

(* ================================================================================== *)
(* 5. Whole call sequences                                                             *)
(* ================================================================================== *)

Definition explicit (os : list apiop) : nat := length (filter (fun o => negb (implicit_only o)) os).

Lemma run_ops_snd w o r : snd (run_ops w (o :: r)) = snd (run_ops (snd (run_op w o)) r).
Proof.
  cbn [run_ops]. destruct (run_op w o) as [a w1]. cbn [snd]. destruct (run_ops w1 r) as [rs w2]. reflexivity.
Qed.

Lemma run_ops_step : forall os w, step (explicit os) w (snd (run_ops w os)).
Proof.
  induction os as [|o r IH]; intro w; [apply step_refl|].
  rewrite run_ops_snd. unfold explicit. cbn [filter].
  destruct (run_op_step w o) as [S1 S0]. destruct (implicit_only o); cbn [negb].
  - apply (step_trans 0 _ w (snd (run_op w o))); [now apply S0|apply IH].
  - cbn [length]. apply (step_trans 1 _ w (snd (run_op w o))); [exact S1|apply IH].
Qed.

Lemma explicit_none os : forallb implicit_only os = true -> explicit os = 0%nat.
Proof.
  induction os as [|o r IH]; [reflexivity|]. cbn [forallb]. intro H. apply andb_true_iff in H as [H1 H2].
  unfold explicit in *. cbn [filter]. rewrite H1. cbn [negb]. auto.
Qed.

Lemma Phi_init x ks fire skip : Phi (ws_init x ks fire skip) = (close_count (iolog x) + 1)%nat.
Proof. reflexivity. Qed.
Lemma Psi_init x ks fire skip : Psi (ws_init x ks fire skip) = (icl (iolog x) + 1)%nat.
Proof. reflexivity. Qed.

(* (2) at most one close frame on the client's own initiative.
   DEVIATION from the requested statement: ws_init takes an arbitrary transport x whose log
   iolog x may already contain entries, so the bound is relative to that log.  With a fresh
   transport (iolog x = [], e.g. RecvSpec.mk_xport) it is the requested "<= 1". *)
Theorem C08_one_close_partial : forall x ks fire skip os,
  forallb implicit_only os = true ->
  (close_count (all_io (snd (run_ops (ws_init x ks fire skip) os))) <= close_count (iolog x) + 1)%nat.
Proof.
  intros x ks fire skip os H. pose proof (run_ops_step os (ws_init x ks fire skip)) as (_ & _ & P & _).
  rewrite (explicit_none os H), Phi_init in P. unfold Phi in P. lia.
Qed.

Theorem C08_one_close_fresh : forall x ks fire skip os,
  iolog x = [] -> forallb implicit_only os = true ->
  (close_count (all_io (snd (run_ops (ws_init x ks fire skip) os))) <= 1)%nat.
Proof.
  intros x ks fire skip os Hx H. pose proof (C08_one_close_partial x ks fire skip os H) as P.
  rewrite Hx in P. exact P.
Qed.

Lemma C08_one_close_counterexample : exists x ks fire skip os,
  forallb implicit_only os = true /\
  close_count (all_io (snd (run_ops (ws_init x ks fire skip) os))) = 2%nat.
Proof.
  exists {| inbox := []; iolog := [IWrite [136]; IWrite [136]] |}, [], false, false, [].
  split; reflexivity.
Qed.

Theorem C08_close_bound_partial : forall x ks fire skip os,
  (close_count (all_io (snd (run_ops (ws_init x ks fire skip) os)))
   <= close_count (iolog x) + 1 + length (filter (fun o => negb (implicit_only o)) os))%nat.
Proof.
  intros x ks fire skip os. pose proof (run_ops_step os (ws_init x ks fire skip)) as (_ & _ & P & _).
  rewrite Phi_init in P. unfold Phi, explicit in P. lia.
Qed.

Theorem C08_close_bound_fresh : forall x ks fire skip os, iolog x = [] ->
  (close_count (all_io (snd (run_ops (ws_init x ks fire skip) os)))
   <= 1 + length (filter (fun o => negb (implicit_only o)) os))%nat.
Proof.
  intros x ks fire skip os Hx. pose proof (C08_close_bound_partial x ks fire skip os) as P.
  rewrite Hx in P. exact P.
Qed.

(* (6) the transport is closed at most once (same deviation: relative to the initial log) *)
Theorem C08_transport_closed_once_partial : forall x ks fire skip os,
  (length (filter is_transport_close (all_io (snd (run_ops (ws_init x ks fire skip) os))))
   <= length (filter is_transport_close (iolog x)) + 1)%nat.
Proof.
  intros x ks fire skip os. pose proof (run_ops_step os (ws_init x ks fire skip)) as (_ & _ & _ & P & _).
  rewrite Psi_init in P. unfold Psi, icl in P. unfold icl. lia.
Qed.

Theorem C08_transport_closed_once_fresh : forall x ks fire skip os, iolog x = [] ->
  (length (filter is_transport_close (all_io (snd (run_ops (ws_init x ks fire skip) os)))) <= 1)%nat.
Proof.
  intros x ks fire skip os Hx. pose proof (C08_transport_closed_once_partial x ks fire skip os) as P.
  rewrite Hx in P. exact P.
Qed.

Lemma C08_transport_closed_once_counterexample : exists x ks fire skip os,
  length (filter is_transport_close (all_io (snd (run_ops (ws_init x ks fire skip) os)))) = 2%nat.
Proof.
  exists {| inbox := []; iolog := [IClose; IClose] |}, [], false, false, []. reflexivity.
Qed.

(* while the transport is held it has never been closed; the flag implies no close frame yet
   (the two invariants behind the bounds, for a fresh transport) *)
Theorem C08_state_invariant : forall x ks fire skip os, iolog x = [] ->
  let w := snd (run_ops (ws_init x ks fire skip) os) in
  (sock w <> None -> filter is_transport_close (all_io w) = []) /\
  (forallb implicit_only os = true -> connected w = true -> close_count (all_io w) = 0%nat).
Proof.
  intros x ks fire skip os Hx w. pose proof (run_ops_step os (ws_init x ks fire skip)) as (_ & _ & P & Q & _).
  fold w in P, Q. rewrite Phi_init in P. rewrite Psi_init in Q. rewrite Hx in P, Q. split.
  - intro Hs. unfold Psi, live, icl in Q. destruct (sock w); [|congruence].
    cbn [b2n] in Q. apply length_zero_iff_nil. cbn in Q. lia.
  - intros Hi Hc. rewrite (explicit_none os Hi) in P. unfold Phi in P. rewrite Hc in P. cbn in P. lia.
Qed.

(* ================================================================================== *)
(* 6. The closed state                                                                 *)
(* ================================================================================== *)

Theorem C08_inv : forall w o, ws_inv w -> ws_inv (snd (run_op w o)).
Proof. intros w o. destruct (run_op_step w o) as [(_ & _ & _ & _ & I) _]. exact I. Qed.

Theorem C08_inv_init : forall x ks fire skip, ws_inv (ws_init x ks fire skip).
Proof. intros x ks fire skip. unfold ws_inv, ws_init. cbn [sock]. discriminate. Qed.

Theorem C08_inv_run : forall x ks fire skip os, ws_inv (snd (run_ops (ws_init x ks fire skip) os)).
Proof.
  intros x ks fire skip os. destruct (run_ops_step os (ws_init x ks fire skip)) as (_ & _ & _ & _ & I).
  apply I, C08_inv_init.
Qed.

Definition payload_len (o : apiop) : Z :=
  match o with OpSend _ p | OpPing p | OpPong p => zlen p | _ => 0 end.
Definition is_recv_op (o : apiop) : bool :=
  match o with OpRecvFrame | OpRecvDataFrame _ | OpRecv => true | _ => false end.

Lemma recv_frame_closed w : sock w = None ->
  ws_recv_frame w = (Raise ConnClosed, upd w false None (past w) (fb w) (cf w) (keys w)).
Proof. intro H. unfold ws_recv_frame. rewrite H. reflexivity. Qed.

Lemma recv_data_frame_closed w c : sock w = None ->
  fst (ws_recv_data_frame (rdf_fuel w) c w) = Raise ConnClosed.
Proof.
  intro H. unfold rdf_fuel. rewrite H. cbn [ws_recv_data_frame]. rewrite recv_frame_closed by exact H. reflexivity.
Qed.

Lemma send_closed w p op r w' : sock w = None -> In op OPCODES -> zlen p < 2 ^ 63 ->
  ws_send w p op = (r, w') -> r = Raise ConnClosed \/ (r = Raise OutOfFuel /\ keys w = []).
Proof.
  intros Hs Ho Hl H.
  destruct (ws_send_cases _ _ _ _ _ H) as [(-> & Hk & _)|(k & ks & Hk & [(e & He & _)|(d & Hd & [(_ & -> & _)|(x & Hx & _)])])].
  - right. auto.
  - destruct (format_frame_total op p k Ho Hl) as [d Hd]. congruence.
  - left. reflexivity.
  - congruence.
Qed.

(* (3) DEVIATION: the requested statement is false when the payload has 2^63 bytes or more,
   because format() raises ValueError before the transport is looked at (counterexample below).
   Below that size it holds, and OutOfFuel only stands for an exhausted key stream of a send. *)
Theorem C08_closed_sticky_partial : forall w o, sock w = None -> ws_inv w ->
  let '(r, w') := run_op w o in
  sock w' = None /\ connected w' = false /\ all_io w' = all_io w /\
  (needs_transport o = true -> payload_len o < 2 ^ 63 ->
   r = RExn ConnClosed \/ (r = RExn OutOfFuel /\ keys w = [] /\ is_recv_op o = false)).
Proof.
  intros w o Hs Hi. destruct (run_op w o) as [r w'] eqn:E.
  destruct (run_op_step w o) as [(A & B & _) _]. rewrite E in A, B. cbn [snd] in A, B.
  destruct (B Hs) as [B1 B2]. split; [exact B1|]. split; [apply A, Hi, Hs|]. split; [exact B2|].
  intros Hn Hl. destruct o as [|c| |op p|p|p|st rs|st rs|]; cbn [run_op needs_transport payload_len] in *;
    try discriminate Hn.
  - rewrite recv_frame_closed in E by exact Hs. inversion E. left. reflexivity.
  - pose proof (recv_data_frame_closed w c Hs) as F.
    destruct (ws_recv_data_frame (rdf_fuel w) c w) as [[[op a]|e] w1]; cbn [fst] in F; [discriminate|].
    inversion F; subst. inversion E. left. reflexivity.
  - unfold ws_recv in E. pose proof (recv_data_frame_closed w false Hs) as F.
    destruct (ws_recv_data_frame (rdf_fuel w) false w) as [[[op a]|e] w1]; cbn [fst] in F; [discriminate|].
    inversion F; subst. inversion E. left. reflexivity.
  - apply in_opcodes_iff in Hn.
    destruct (ws_send w p op) as [[n|e] w1] eqn:F; destruct (send_closed _ _ _ _ _ Hs Hn Hl F) as [X|[X Y]];
      try discriminate X; inversion X; subst; inversion E; auto.
  - destruct (ws_send w p OPCODE_PING) as [[n|e] w1] eqn:F;
      destruct (send_closed _ _ _ _ _ Hs g_ping_in Hl F) as [X|[X Y]];
      try discriminate X; inversion X; subst; inversion E; auto.
  - destruct (ws_send w p OPCODE_PONG) as [[n|e] w1] eqn:F;
      destruct (send_closed _ _ _ _ _ Hs g_pong_in Hl F) as [X|[X Y]];
      try discriminate X; inversion X; subst; inversion E; auto.
Qed.

(* receive calls on a closed object: exactly ConnClosed *)
Corollary C08_closed_recv : forall w o, sock w = None -> ws_inv w -> is_recv_op o = true ->
  fst (run_op w o) = RExn ConnClosed.
Proof.
  intros w o Hs Hi Hr. pose proof (C08_closed_sticky_partial w o Hs Hi) as P.
  destruct (run_op w o) as [r w']. destruct P as (_ & _ & _ & P). cbn [fst].
  assert (L : payload_len o < 2 ^ 63) by (destruct o; try discriminate Hr; cbn [payload_len]; rewrite pow63; lia).
  assert (N : needs_transport o = true) by (destruct o; try discriminate Hr; reflexivity).
  destruct (P N L) as [X|(_ & _ & X)]; [exact X|congruence].
Qed.

Lemma big_payload : exists p : bytes, 2 ^ 63 <= zlen p.
Proof.
  exists (repeat 0 (Z.to_nat (2 ^ 63))). unfold zlen. rewrite repeat_length, Z2Nat.id; rewrite pow63; lia.
Qed.

Lemma C08_closed_sticky_counterexample : exists w o,
  sock w = None /\ ws_inv w /\ needs_transport o = true /\ fst (run_op w o) = RExn ValueErr.
Proof.
  destruct big_payload as [p Hp].
  exists {| connected := false; sock := None; past := []; fb := fb_init; cf := cf_init;
            keys := [[0; 0; 0; 0]]; fire_cont := false; skip_utf8 := false |}, (OpPing p).
  split; [reflexivity|]. split; [intro; reflexivity|]. split; [reflexivity|].
  cbn [run_op]. unfold ws_send. cbn [keys]. rewrite (format_frame_big _ _ _ g_ping_in Hp). reflexivity.
Qed.

Lemma ws_shutdown_sock w : sock (ws_shutdown w) = None.
Proof. unfold ws_shutdown. destruct (sock w) eqn:E; [reflexivity|exact E]. Qed.

Theorem C08_close_releases : forall w st r res w',
  ws_inv w -> ws_close w st r = (res, w') -> res = Ok tt -> sock w' = None /\ connected w' = false.
Proof.
  intros w st r res w' Hi H Hr.
  pose proof (ws_close_step _ _ _ _ _ H) as (_ & _ & _ & _ & I). specialize (I Hi).
  assert (Hs : sock w' = None).
  { unfold ws_close in H. destruct (negb (connected w)); [inversion H; apply ws_shutdown_sock|].
    destruct (close_bad_status st); [inversion H; subst; discriminate|].
    inversion H. apply ws_shutdown_sock. }
  split; [exact Hs|apply I, Hs].
Qed.

Theorem C08_loss_releases : forall w w',
  ws_recv_frame w = (Raise ConnClosed, w') -> sock w' = None /\ connected w' = false.
Proof.
  intros w w' H.
  destruct (ws_recv_frame_cases _ _ _ H) as [(_ & _ & ->)|(x & fb' & x' & l & _ & _ & _ & [(_ & ->)|(N & _)])].
  - split; reflexivity.
  - split; reflexivity.
  - now destruct N.
Qed.

(* (4) the status range is checked before anything else happens *)
Theorem C08_range_first : forall w st r,
  connected w = true -> close_bad_status st = true -> ws_close w st r = (Raise ValueErr, w).
Proof. intros w st r Hc Hb. unfold ws_close. rewrite Hc, Hb. reflexivity. Qed.

Theorem C08_range_first_send_close : forall w st r,
  send_close_bad_status st = true -> ws_send_close w st r = (Raise ValueErr, w).
Proof. intros w st r Hb. unfold ws_send_close. rewrite Hb. reflexivity. Qed.

(* (5) what send_close puts on the wire *)
Theorem C08_encoding : forall w st reason k ks x,
  connected w = true -> sock w = Some x -> keys w = k :: ks ->
  0 <= st < 65536 -> bytes_ok reason -> zlen reason < 2 ^ 62 -> bytes_ok k -> length k = 4%nat ->
  exists w1, ws_send_close w st reason = (Ok tt, w1) /\ connected w1 = false /\ keys w1 = ks /\
    sock w1 = Some (xlog x (IWrite (encode (client_frame 1 OPCODE_CLOSE k (be_encode 2 st ++ reason))))).
Proof.
  intros w st reason k ks x Hc Hs Hk Hst Hr Hl Hkb Hk4.
  assert (Hb : send_close_bad_status st = false).
  { destruct (send_close_bad_status st) eqn:E; [|reflexivity]. apply send_bad_status_iff in E. lia. }
  assert (Hf : format_frame 1 OPCODE_CLOSE (close_body st reason) k
               = Ok (encode (client_frame 1 OPCODE_CLOSE k (be_encode 2 st ++ reason)))).
  { unfold close_body. apply format_is_encode; try assumption.
    - cbn. tauto.
    - apply g_close_in.
    - apply bytes_ok_app. split; [apply be_encode_ok|exact Hr].
    - rewrite zlen_app, be_encode_zlen. change (2 ^ 62) with 4611686018427387904 in Hl. rewrite pow63. lia. }
  unfold ws_send_close. rewrite Hb. unfold ws_send. cbn [upd keys sock connected past fb cf].
  rewrite Hk, Hf, Hs. eexists. split; [reflexivity|]. cbn [upd keys sock connected]. auto.
Qed.

(* Observation (not a requested theorem): send_frame never looks at the [connected] flag, so
   between the close frame and the release of the transport further frames are still written. *)
Lemma send_ignores_flag : forall w p op k ks x d,
  sock w = Some x -> keys w = k :: ks -> format_frame 1 op p k = Ok d ->
  ws_send w p op = (Ok (zlen d), upd w (connected w) (Some (xlog x (IWrite d))) (past w) (fb w) (cf w) ks).
Proof. intros w p op k ks x d Hs Hk Hf. unfold ws_send. rewrite Hk, Hf, Hs. reflexivity. Qed.

Print Assumptions format_first_byte.
Print Assumptions format_first_byte_mod.
Print Assumptions bad_status_iff.
Print Assumptions send_bad_status_iff.
Print Assumptions C08_one_close_partial.
Print Assumptions C08_one_close_fresh.
Print Assumptions C08_one_close_counterexample.
Print Assumptions C08_close_bound_partial.
Print Assumptions C08_close_bound_fresh.
Print Assumptions C08_transport_closed_once_partial.
Print Assumptions C08_transport_closed_once_fresh.
Print Assumptions C08_transport_closed_once_counterexample.
Print Assumptions C08_state_invariant.
Print Assumptions C08_inv.
Print Assumptions C08_inv_init.
Print Assumptions C08_inv_run.
Print Assumptions C08_closed_sticky_partial.
Print Assumptions C08_closed_recv.
Print Assumptions C08_closed_sticky_counterexample.
Print Assumptions C08_close_releases.
Print Assumptions C08_loss_releases.
Print Assumptions C08_range_first.
Print Assumptions C08_range_first_send_close.
Print Assumptions C08_encoding.
Print Assumptions send_ignores_flag.
