(* Statement-level definitions for the frame-level theorems (C04, C05, C06 message clause, C07). *)
From Coq Require Import ZArith List Bool.
From WS Require Import Base.Res Base.Bytes Spec.Frame Spec.Utf8 Spec.Legal Gen.GenAbnf Gen.GenCore
  Model.Recv Model.Conn Proofs.RecvSpec.
Import ListNotations.
Open Scope Z_scope.

(* what a caller who keeps calling recv_data_frame observes while frames fs arrive in order:
   automatic replies, values returned, exceptions *)
Inductive fobs :=
  | ODeliver (op : Z) (fin : Z) (data : bytes)
  | OPong (p : bytes)
  | OCloseReply
  | OFail (e : exn).

Definition write_obs (w : wreq) : fobs := match w with WPong p => OPong p | WClose => OCloseReply end.
Definition wrote_close (ws_ : list wreq) : bool := existsb (fun w => match w with WClose => true | _ => false end) ws_.

Fixpoint run_frames (fire skip control conn : bool) (cf : cframe) (fs : list abnf) : list fobs :=
  match fs with
  | [] => []
  | f :: r =>
    let st := handle_frame fire skip control conn cf f in
    map write_obs (s_writes st)
    ++ match s_out st with
       | Return op f' => [ODeliver op (a_fin f') (a_data f')]
       | Fail e => [OFail e]
       | Again => []
       end
    ++ run_frames fire skip control (conn && negb (wrote_close (s_writes st))) (s_cf st) r
  end.

Definition is_data_obs (o : fobs) : bool :=
  match o with
  | ODeliver op _ _ => is_data op
  | OFail Payload => true
  | _ => false
  end.
Definition is_pong_obs (o : fobs) : bool := match o with OPong _ => true | _ => false end.
Definition is_write_obs (o : fobs) : bool := match o with OPong _ | OCloseReply => true | _ => false end.

(* a reassembled message as the caller sees it: text is checked as a whole *)
Definition judge_msg (skip : bool) (m : Z * bytes) : fobs :=
  let '(op, d) := m in
  if (op =? OP_TEXT) && negb skip && negb (wf_utf8 d) then OFail Payload else ODeliver op 1 d.

(* frames that passed the per-frame check, in a legal order *)
Definition frames_legal (skip : bool) (fs : list abnf) : bool :=
  legal_seq (negb skip) false (map wframe_of fs).
Definition no_close (fs : list abnf) : bool := forallb (fun f => negb (a_opcode f =? OP_CLOSE)) fs.
Definition abnf_ok (f : abnf) : Prop :=
  (a_fin f = 0 \/ a_fin f = 1) /\ bytes_ok (a_data f).
