(* Extraction of the spec oracles only: no dependency on Gen/ or Model/, so the
   oracles stay available when a source change breaks translation or the model. *)
From Coq Require Import ZArith List.
From Coq Require Extraction ExtrOcamlBasic.
From WS Require Import Base.Res Base.Bytes Spec.Utf8 Spec.Frame Spec.Legal Spec.HttpReq Spec.AppTrace Proofs.FastOracle.
Extraction Language OCaml.
Extraction "core_spec.ml"
  exn_eqb is_ok Z.add Z.mul Z.div Z.modulo Z.opp Z.abs Z.of_nat Z.to_nat Z.eqb Z.ltb
  wf_utf8 utf8_encode
  decode_fast decode_all_fast encode_fast
  frame_verdict seq_ok seq_next legal_seq reassemble per_fragment pongs_owed close_code
  response_accepts parse_request header_values host_header
  items close_info.
