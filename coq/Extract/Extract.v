(* Extraction of the executable model and the spec oracles (ExtrOcamlBasic only). *)
From Coq Require Import ZArith List.
From Coq Require Extraction ExtrOcamlBasic.
From WS Require Import Base.Res Base.Bytes Base.GenPrelude Spec.Utf8 Gen.GenUtils.
Extraction Language OCaml.
Extraction "core_full.ml"
  exn_eqb is_ok Z.add Z.mul Z.div Z.modulo Z.opp Z.abs Z.of_nat Z.to_nat Z.eqb Z.ltb
  wf_utf8 utf8_encode
  validate_utf8 decode_step.
