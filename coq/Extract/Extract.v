(* Extraction of the executable model and the spec oracles (ExtrOcamlBasic only). *)
From Coq Require Import ZArith List.
From Coq Require Extraction ExtrOcamlBasic.
From WS Require Import Base.Res Base.Bytes Base.GenPrelude Spec.Utf8 Spec.Frame Spec.Legal Proofs.FastOracle Gen.GenUtils Gen.GenAbnf
  Model.Send Model.Xport Model.Recv Model.Conn Model.Script Gen.GenCore Model.App Gen.GenApp Model.PingTimer
  Base.Str Model.Http Model.Handshake Model.Url Model.Open Model.Connect Spec.HttpReq Spec.AppTrace Model.Tunnel.
Extraction Language OCaml.
Extraction "core_full.ml"
  exn_eqb is_ok Z.add Z.mul Z.div Z.modulo Z.opp Z.abs Z.of_nat Z.to_nat Z.eqb Z.ltb
  wf_utf8 utf8_encode
  decode_fast decode_all_fast encode_fast
  frame_verdict seq_ok seq_next legal_seq reassemble per_fragment pongs_owed close_code
  validate_utf8 decode_step
  abnf_validate abnf_format is_valid_close_status parse_header length_need length_decode mask_need
  strict_shortage strict_continue strict_request strict_step strict_finish mask_bigint
  format_frame ws_send_frame close_body
  run_ops ws_init all_io recv_frame handle_frame
  run_forever
  keepalive ping_args_rejected ping_expired
  ws_connect cs_init read_headers get_handshake_headers request_bytes hs_validate parse_url open_socket
  response_accepts parse_request header_values host_header
  items close_info
  connect_request tunnel.
