(* Result type shared by all model functions: a value or one of a small enum of
   exception classes.  Internal_* are the classes property C17 forbids. *)
From Coq Require Import ZArith List.
Import ListNotations.

Inductive internal_kind :=
  IndexErr | KeyErr | IntParse | StructErr | AttrErr | UnicodeDec | TypeErr.

Inductive exn :=
  | Protocol | Payload | ConnClosed | TimedOut
  | BadStatus (code : Z)
  | WsGeneric | ProxyErr | AddressErr | ValueErr
  | Internal (k : internal_kind)
  | Transport (k : Z)
  | OutOfFuel.

Inductive res (A : Type) := Ok (a : A) | Raise (e : exn).
Arguments Ok {A} a.
Arguments Raise {A} e.

Definition bind {A B} (r : res A) (f : A -> res B) : res B :=
  match r with Ok a => f a | Raise e => Raise e end.

Notation "'do' x <- r ; k" := (bind r (fun x => k))
  (at level 200, x pattern, r at level 100, k at level 200).

Definition is_ok {A} (r : res A) : bool := match r with Ok _ => true | _ => false end.

Definition exn_eqb (a b : exn) : bool :=
  match a, b with
  | Protocol, Protocol | Payload, Payload | ConnClosed, ConnClosed
  | TimedOut, TimedOut | WsGeneric, WsGeneric | ProxyErr, ProxyErr
  | AddressErr, AddressErr | ValueErr, ValueErr | OutOfFuel, OutOfFuel => true
  | BadStatus x, BadStatus y => Z.eqb x y
  | Transport x, Transport y => Z.eqb x y
  | Internal x, Internal y =>
      match x, y with
      | IndexErr, IndexErr | KeyErr, KeyErr | IntParse, IntParse | StructErr, StructErr
      | AttrErr, AttrErr | UnicodeDec, UnicodeDec | TypeErr, TypeErr => true
      | _, _ => false
      end
  | _, _ => false
  end.
