(* SHA-1 (FIPS 180-4) on byte lists.  No theorem is proved about it: it is validated by
   test vectors (below) and by correspondence against hashlib.sha1 on every run. *)
From Coq Require Import ZArith List Bool.
From WS Require Import Base.Bytes.
Import ListNotations.
Open Scope Z_scope.

Definition M32 : Z := 4294967296.
Definition w32 (x : Z) : Z := x mod M32.
Definition rotl (n x : Z) : Z := w32 (Z.lor (Z.shiftl x n) (Z.shiftr x (32 - n))).
Definition add32 (a b : Z) : Z := w32 (a + b).
Definition not32 (a : Z) : Z := M32 - 1 - a.

Definition sha1_pad (msg : bytes) : bytes :=
  let n := zlen msg in
  let k := (55 - n) mod 64 in
  msg ++ [128] ++ repeat_bytes (Z.to_nat k) 0 ++ be_encode 8 (8 * n).

Fixpoint words_of (l : bytes) : list Z :=
  match l with
  | a :: b :: c :: d :: r => (((a * 256 + b) * 256 + c) * 256 + d) :: words_of r
  | _ => []
  end.

Fixpoint chunks (fuel : nat) (l : list Z) : list (list Z) :=
  match fuel with
  | O => []
  | S k => match l with [] => [] | _ => firstn 16 l :: chunks k (skipn 16 l) end
  end.

(* extend 16 words to 80: w is kept reversed (most recent first) *)
Fixpoint extend (n : nat) (wrev : list Z) : list Z :=
  match n with
  | O => wrev
  | S k =>
    let x := Z.lxor (Z.lxor (nth 2 wrev 0) (nth 7 wrev 0)) (Z.lxor (nth 13 wrev 0) (nth 15 wrev 0)) in
    extend k (rotl 1 x :: wrev)
  end.

Definition round (t : Z) (st : Z * Z * Z * Z * Z) (wt : Z) : Z * Z * Z * Z * Z :=
  let '(a, b, c, d, e) := st in
  let '(f, k) :=
    if t <? 20 then (Z.lor (Z.land b c) (Z.land (not32 b) d), 1518500249)
    else if t <? 40 then (Z.lxor (Z.lxor b c) d, 1859775393)
    else if t <? 60 then (Z.lor (Z.lor (Z.land b c) (Z.land b d)) (Z.land c d), 2400959708)
    else (Z.lxor (Z.lxor b c) d, 3395469782) in
  let temp := add32 (add32 (add32 (add32 (rotl 5 a) f) e) k) wt in
  (temp, a, rotl 30 b, c, d).

Fixpoint rounds (ws : list Z) (t : Z) (st : Z * Z * Z * Z * Z) : Z * Z * Z * Z * Z :=
  match ws with [] => st | w :: r => rounds r (t + 1) (round t st w) end.

Definition process (h : Z * Z * Z * Z * Z) (chunk : list Z) : Z * Z * Z * Z * Z :=
  let w80 := rev (extend 64 (rev chunk)) in
  let '(h0, h1, h2, h3, h4) := h in
  let '(a, b, c, d, e) := rounds w80 0 h in
  (add32 h0 a, add32 h1 b, add32 h2 c, add32 h3 d, add32 h4 e).

Definition sha1 (msg : bytes) : bytes :=
  let ws := words_of (sha1_pad msg) in
  let '(h0, h1, h2, h3, h4) :=
    fold_left process (chunks (S (length ws)) ws) (1732584193, 4023233417, 2562383102, 271733878, 3285377520) in
  be_encode 4 h0 ++ be_encode 4 h1 ++ be_encode 4 h2 ++ be_encode 4 h3 ++ be_encode 4 h4.

(* "abc" -> a9993e36 4706816a ba3e2571 7850c26c 9cd0d89d *)
Example sha1_abc : sha1 [97; 98; 99] =
  [169; 153; 62; 54; 71; 6; 129; 106; 186; 62; 37; 113; 120; 80; 194; 108; 156; 208; 216; 157].
Proof. vm_compute. reflexivity. Qed.
Example sha1_empty : sha1 [] =
  [218; 57; 163; 238; 94; 107; 75; 13; 50; 85; 191; 239; 149; 96; 24; 144; 175; 216; 7; 9].
Proof. vm_compute. reflexivity. Qed.
