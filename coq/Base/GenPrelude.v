(* Helper definitions the generated files (Gen/*.v) refer to. *)
From Coq Require Import ZArith List Bool.
From WS Require Import Base.Bytes.
Import ListNotations.
Open Scope Z_scope.

(* l[i] for an index the surrounding code keeps in range; 0 otherwise
   (Python would raise IndexError: every use is guarded, see DESIGN section 9). *)
Definition byte_at (l : list Z) (i : Z) : Z := nth (Z.to_nat i) l 0.

(* bytes * n *)
Fixpoint repeat_list_nat (l : list Z) (n : nat) : list Z :=
  match n with O => [] | S k => l ++ repeat_list_nat l k end.
Definition repeat_list (l : list Z) (n : Z) : list Z := repeat_list_nat l (Z.to_nat n).

Definition is_none {A} (o : option A) : bool := match o with None => true | Some _ => false end.
Definition truthy_opt_Z (o : option Z) : bool := match o with Some z => negb (z =? 0) | None => false end.
Definition truthy_opt_bytes (o : option (list Z)) : bool :=
  match o with Some l => negb (zlen l =? 0) | None => false end.

Definition tup2_0 {A B} (p : A * B) := fst p.
Definition tup2_1 {A B} (p : A * B) := snd p.
Definition tup7_0 {A B C D E F G} (p : A*B*C*D*E*F*G) := let '(a,_,_,_,_,_,_) := p in a.
Definition tup7_1 {A B C D E F G} (p : A*B*C*D*E*F*G) := let '(_,a,_,_,_,_,_) := p in a.
Definition tup7_2 {A B C D E F G} (p : A*B*C*D*E*F*G) := let '(_,_,a,_,_,_,_) := p in a.
Definition tup7_3 {A B C D E F G} (p : A*B*C*D*E*F*G) := let '(_,_,_,a,_,_,_) := p in a.
Definition tup7_4 {A B C D E F G} (p : A*B*C*D*E*F*G) := let '(_,_,_,_,a,_,_) := p in a.
Definition tup7_5 {A B C D E F G} (p : A*B*C*D*E*F*G) := let '(_,_,_,_,_,a,_) := p in a.
Definition tup7_6 {A B C D E F G} (p : A*B*C*D*E*F*G) := let '(_,_,_,_,_,_,a) := p in a.

(* little-endian integers: int.from_bytes(x, 'little') / to_bytes(n, 'little') *)
Fixpoint le_decode (l : list Z) : Z :=
  match l with [] => 0 | b :: r => b + 256 * le_decode r end.
Fixpoint le_encode_nat (k : nat) (n : Z) : list Z :=
  match k with O => [] | S k' => (n mod 256) :: le_encode_nat k' (n / 256) end.
Definition le_encode (k : Z) (n : Z) : list Z := le_encode_nat (Z.to_nat k) n.
