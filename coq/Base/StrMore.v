(* Further str methods (ASCII strings as lists of code points) used by the URL and proxy models:
   partition / rpartition, split, lstrip(chars), replace(c, ""), character classes.
   Definitions only; the lemmas about them are in Proofs/UrlProof.v. *)
From Coq Require Import ZArith List Bool.
From WS Require Import Base.Bytes Base.Str.
Import ListNotations.
Open Scope Z_scope.

Definition null {A} (l : list A) : bool := match l with [] => true | _ => false end.

(* character classes *)
Definition is_upper (c : Z) : bool := (65 <=? c) && (c <=? 90).
Definition is_lower (c : Z) : bool := (97 <=? c) && (c <=? 122).
Definition is_alpha (c : Z) : bool := is_upper c || is_lower c.
Definition is_hex (c : Z) : bool :=
  is_digit c || ((65 <=? c) && (c <=? 70)) || ((97 <=? c) && (c <=? 102)).
(* printable ASCII without the space: the alphabet of the URL model *)
Definition is_print (c : Z) : bool := (33 <=? c) && (c <=? 126).

(* s.partition(c): (before, found, after); (s, false, "") when c does not occur *)
Definition partition (c : Z) (s : str) : str * bool * str :=
  match split_once c s with Some (a, b) => (a, true, b) | None => (s, false, []) end.

(* the split at the LAST occurrence of c; None when c does not occur *)
Fixpoint rsplit_once (c : Z) (s : str) : option (str * str) :=
  match s with
  | [] => None
  | x :: r =>
      match rsplit_once c r with
      | Some (a, b) => Some (x :: a, b)
      | None => if x =? c then Some ([], r) else None
      end
  end.

(* s.rpartition(c): ("", false, s) when c does not occur *)
Definition rpartition (c : Z) (s : str) : str * bool * str :=
  match rsplit_once c s with Some (a, b) => (a, true, b) | None => ([], false, s) end.

(* longest prefix satisfying P, and the rest *)
Fixpoint span (P : Z -> bool) (s : str) : str * str :=
  match s with
  | [] => ([], [])
  | c :: r => if P c then let (a, b) := span P r in (c :: a, b) else ([], s)
  end.

(* s.split(c) for a single character c; same function as Str.split_all, written without an
   accumulator (Proofs/UrlProof.v: split_on_split_all) *)
Fixpoint split_on (c : Z) (s : str) : list str :=
  match s with
  | [] => [[]]
  | x :: r =>
      if x =? c then [] :: split_on c r
      else match split_on c r with
           | h :: t => (x :: h) :: t
           | [] => [[x]]
           end
  end.

(* s.lstrip(c) for a single character *)
Fixpoint lstrip_char (c : Z) (s : str) : str :=
  match s with x :: r => if x =? c then lstrip_char c r else s | [] => [] end.

(* s.replace(c, "") for a single character *)
Definition remove_char (c : Z) (s : str) : str := filter (fun x => negb (x =? c)) s.

Fixpoint count_char (c : Z) (s : str) : Z :=
  match s with [] => 0 | x :: r => (if x =? c then 1 else 0) + count_char c r end.

(* all suffixes of s, longest first *)
Fixpoint tails (s : str) : list str :=
  match s with [] => [[]] | _ :: r => s :: tails r end.

(* str.isdigit() on an ASCII string: non-empty and only 0-9 *)
Definition all_digits (s : str) : bool := negb (null s) && forallb is_digit s.

(* the value of a string of decimal digits (None when some character is not a digit) *)
Definition parse_nat (s : str) : option Z := parse_nat_aux s 0.
