(* Byte strings as lists of Z in [0,256); big-endian integers; cyclic xor. *)
From Coq Require Import ZArith List Bool Lia.
Import ListNotations.
Open Scope Z_scope.

Definition bytes := list Z.
Definition byte_ok (b : Z) : Prop := 0 <= b < 256.
Definition bytes_ok (l : bytes) : Prop := Forall byte_ok l.
Definition byte_okb (b : Z) : bool := (0 <=? b) && (b <? 256).
Definition bytes_okb (l : bytes) : bool := forallb byte_okb l.

Definition zlen {A} (l : list A) : Z := Z.of_nat (length l).

(* Python slices data[:n] / data[n:] for n >= 0 (negative bounds never occur in the
   translated fragment).  Structural on the list, so a huge declared n costs nothing. *)
Fixpoint ztake {A} (n : Z) (l : list A) : list A :=
  match l with
  | [] => []
  | x :: r => if n <=? 0 then [] else x :: ztake (n - 1) r
  end.
Fixpoint zdrop {A} (n : Z) (l : list A) : list A :=
  match l with
  | [] => []
  | x :: r => if n <=? 0 then l else zdrop (n - 1) r
  end.

(* data[i] with IndexError as None *)
Definition znth (l : bytes) (i : Z) : option Z :=
  if i <? 0 then None else nth_error l (Z.to_nat i).

(* k big-endian bytes of n (struct.pack "!H" / "!Q", int.to_bytes) *)
Fixpoint be_encode (k : nat) (n : Z) : bytes :=
  match k with
  | O => []
  | S k' => be_encode k' (n / 256) ++ [n mod 256]
  end.

Definition be_decode (l : bytes) : Z := fold_left (fun acc b => acc * 256 + b) l 0.

(* data[j] xor key[(i + j) mod |key|] *)
Fixpoint xor_cyc (key : bytes) (i : nat) (data : bytes) : bytes :=
  match data with
  | [] => []
  | d :: ds => Z.lxor d (nth (Nat.modulo i (length key)) key 0) :: xor_cyc key (S i) ds
  end.

Fixpoint repeat_bytes (n : nat) (b : Z) : bytes :=
  match n with O => [] | S k => b :: repeat_bytes k b end.
