(* ASCII strings as lists of code points; the str/bytes methods the handshake code uses. *)
From Coq Require Import ZArith List Bool.
From WS Require Import Base.Bytes.
Import ListNotations.
Open Scope Z_scope.

Definition str := list Z.

Fixpoint str_eqb (a b : str) : bool :=
  match a, b with
  | [], [] => true
  | x :: a', y :: b' => (x =? y) && str_eqb a' b'
  | _, _ => false
  end.

(* str.lower() on ASCII *)
Definition lower1 (c : Z) : Z := if (65 <=? c) && (c <=? 90) then c + 32 else c.
Definition lower (s : str) : str := map lower1 s.

(* characters str.strip() removes (ASCII part of Python's whitespace set) *)
Definition is_space (c : Z) : bool := ((9 <=? c) && (c <=? 13)) || ((28 <=? c) && (c <=? 32)).
Fixpoint lstrip (s : str) : str :=
  match s with c :: r => if is_space c then lstrip r else s | [] => [] end.
Definition rstrip (s : str) : str := rev (lstrip (rev s)).
Definition strip (s : str) : str := rstrip (lstrip s).

(* s.split(sep, 1) for a single-character sep: None when sep does not occur *)
Fixpoint split_once (sep : Z) (s : str) : option (str * str) :=
  match s with
  | [] => None
  | c :: r => if c =? sep then Some ([], r)
              else match split_once sep r with Some (a, b) => Some (c :: a, b) | None => None end
  end.

(* s.split(sep) for a single-character sep *)
Fixpoint split_all_aux (sep : Z) (s : str) (cur : str) : list str :=
  match s with
  | [] => [rev cur]
  | c :: r => if c =? sep then rev cur :: split_all_aux sep r [] else split_all_aux sep r (c :: cur)
  end.
Definition split_all (sep : Z) (s : str) : list str := split_all_aux sep s [].

Fixpoint join (sep : str) (l : list str) : str :=
  match l with [] => [] | [x] => x | x :: r => x ++ sep ++ join sep r end.

Fixpoint starts_with (p s : str) : bool :=
  match p, s with
  | [], _ => true
  | x :: p', y :: s' => (x =? y) && starts_with p' s'
  | _ :: _, [] => false
  end.
Definition ends_with (p s : str) : bool := starts_with (rev p) (rev s).

Fixpoint contains_char (c : Z) (s : str) : bool :=
  match s with [] => false | x :: r => (x =? c) || contains_char c r end.

Definition mem_str (x : str) (l : list str) : bool := existsb (str_eqb x) l.

(* decimal digits *)
Definition is_digit (c : Z) : bool := (48 <=? c) && (c <=? 57).
Fixpoint parse_nat_aux (s : str) (acc : Z) : option Z :=
  match s with
  | [] => Some acc
  | c :: r => if is_digit c then parse_nat_aux r (acc * 10 + (c - 48)) else None
  end.
(* int(s) for the forms that occur: optional surrounding whitespace, optional sign, digits *)
Definition parse_int (s : str) : option Z :=
  match strip s with
  | [] => None
  | 45 :: r => match r with [] => None | _ => option_map Z.opp (parse_nat_aux r 0) end
  | 43 :: r => match r with [] => None | _ => parse_nat_aux r 0 end
  | r => parse_nat_aux r 0
  end.

Fixpoint digits_of_pos (fuel : nat) (n : Z) (acc : str) : str :=
  match fuel with
  | O => acc
  | S k => if n <? 10 then (48 + n) :: acc else digits_of_pos k (n / 10) ((48 + n mod 10) :: acc)
  end.
Definition str_of_Z (n : Z) : str :=
  if n <? 0 then 45 :: digits_of_pos 80 (- n) [] else digits_of_pos 80 n [].

(* association lists keyed by strings (Python dict with insertion order; assignment replaces in place) *)
Fixpoint alist_get {A} (k : str) (l : list (str * A)) : option A :=
  match l with [] => None | (k', v) :: r => if str_eqb k k' then Some v else alist_get k r end.
Fixpoint alist_set {A} (k : str) (v : A) (l : list (str * A)) : list (str * A) :=
  match l with
  | [] => [(k, v)]
  | (k', v') :: r => if str_eqb k k' then (k, v) :: r else (k', v') :: alist_set k v r
  end.
