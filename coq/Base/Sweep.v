(* Finite sweeps lifted to universally quantified statements. *)
From Coq Require Import ZArith List Bool Lia.
Import ListNotations.
Open Scope Z_scope.

(* [zrange n s] = [s; s+1; ...; s+n-1], built with a Z accumulator. *)
Fixpoint zrange (n : nat) (s : Z) : list Z :=
  match n with O => [] | S k => s :: zrange k (s + 1) end.

Lemma zrange_in : forall n s x, s <= x < s + Z.of_nat n -> In x (zrange n s).
Proof.
  induction n as [|n IH]; intros s x H; simpl in *.
  - lia.
  - destruct (Z.eq_dec s x) as [->|Hne]; [now left|right].
    apply IH. lia.
Qed.

Lemma zrange_length : forall n s, length (zrange n s) = n.
Proof. induction n; simpl; intros; [reflexivity|now rewrite IHn]. Qed.

Lemma forall_range (P : Z -> bool) (n : nat) (s : Z) :
  forallb P (zrange n s) = true ->
  forall x, s <= x < s + Z.of_nat n -> P x = true.
Proof.
  intros H x Hx. rewrite forallb_forall in H. apply H. now apply zrange_in.
Qed.

(* two-dimensional sweep *)
Lemma forall_range2 (P : Z -> Z -> bool) (n m : nat) (s t : Z) :
  forallb (fun x => forallb (P x) (zrange m t)) (zrange n s) = true ->
  forall x y, s <= x < s + Z.of_nat n -> t <= y < t + Z.of_nat m -> P x y = true.
Proof.
  intros H x y Hx Hy.
  pose proof (forall_range _ _ _ H x Hx) as H1. cbv beta in H1.
  exact (forall_range _ _ _ H1 y Hy).
Qed.
