(* Python's int(str) on ASCII text: optional surrounding whitespace, optional sign, decimal digits
   with single underscores between digits. *)
From Coq Require Import ZArith List Bool.
From WS Require Import Base.Bytes Base.Str.
Import ListNotations.
Open Scope Z_scope.

(* digits with single underscores between digits; [prev_digit] = the previous character was a digit *)
Fixpoint py_digits (s : str) (acc : Z) (prev_digit : bool) : option Z :=
  match s with
  | [] => if prev_digit then Some acc else None
  | c :: r =>
    if is_digit c then py_digits r (acc * 10 + (c - 48)) true
    else if (c =? 95) && prev_digit then
      match r with d :: _ => if is_digit d then py_digits r acc false else None | [] => None end
    else None
  end.

(* int() skips only the ASCII whitespace characters \t \n \v \f \r and space — NOT \x1c..\x1f, which str.strip() removes *)
Definition is_int_space (c : Z) : bool := ((9 <=? c) && (c <=? 13)) || (c =? 32).
Fixpoint lstrip_int (s : str) : str :=
  match s with c :: r => if is_int_space c then lstrip_int r else s | [] => [] end.
Definition strip_int (s : str) : str := rev (lstrip_int (rev (lstrip_int s))).

Definition py_int (s : str) : option Z :=
  match strip_int s with
  | [] => None
  | 45 :: r => option_map Z.opp (py_digits r 0 false)
  | 43 :: r => py_digits r 0 false
  | r => py_digits r 0 false
  end.

(* s.split(" ", 2): at most two splits at single spaces *)
Definition split_sp2 (s : str) : list str :=
  match split_once 32 s with
  | None => [s]
  | Some (a, r) => match split_once 32 r with None => [a; r] | Some (b, c) => [a; b; c] end
  end.
