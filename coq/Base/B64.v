(* base64 (RFC 4648, standard alphabet, padding) as base64.encodebytes(...).strip() gives for short inputs. *)
From Coq Require Import ZArith List Bool.
From WS Require Import Base.Bytes.
Import ListNotations.
Open Scope Z_scope.

Definition b64_char (i : Z) : Z :=
  if i <? 26 then 65 + i else if i <? 52 then 97 + (i - 26) else if i <? 62 then 48 + (i - 52)
  else if i =? 62 then 43 else 47.

Fixpoint b64_encode (l : bytes) : bytes :=
  match l with
  | [] => []
  | [a] => [b64_char (a / 4); b64_char ((a mod 4) * 16); 61; 61]
  | [a; b] => [b64_char (a / 4); b64_char ((a mod 4) * 16 + b / 16); b64_char ((b mod 16) * 4); 61]
  | a :: b :: c :: r =>
      b64_char (a / 4) :: b64_char ((a mod 4) * 16 + b / 16) :: b64_char ((b mod 16) * 4 + c / 64)
      :: b64_char (c mod 64) :: b64_encode r
  end.

Definition b64_val (c : Z) : option Z :=
  if (65 <=? c) && (c <=? 90) then Some (c - 65)
  else if (97 <=? c) && (c <=? 122) then Some (c - 97 + 26)
  else if (48 <=? c) && (c <=? 57) then Some (c - 48 + 52)
  else if c =? 43 then Some 62 else if c =? 47 then Some 63 else None.

Fixpoint b64_decode (l : bytes) : option bytes :=
  match l with
  | [] => Some []
  | a :: b :: c :: d :: r =>
    match b64_val a, b64_val b with
    | Some x, Some y =>
      if (c =? 61) && (d =? 61) then match r with [] => Some [x * 4 + y / 16] | _ => None end
      else match b64_val c with
           | Some z =>
             if d =? 61 then match r with [] => Some [x * 4 + y / 16; (y mod 16) * 16 + z / 4] | _ => None end
             else match b64_val d, b64_decode r with
                  | Some u, Some t => Some (x * 4 + y / 16 :: (y mod 16) * 16 + z / 4 :: (z mod 4) * 64 + u :: t)
                  | _, _ => None
                  end
           | None => None
           end
    | _, _ => None
    end
  | _ => None
  end.
