(* C12 — each send puts one intact frame on the wire under partial writes and threads. *)
From Coq Require Import ZArith List Permutation.
From WS Require Import Base.Res Base.Bytes Spec.Frame Gen.GenAbnf Gen.GenCore Model.Send Model.Threads
  Proofs.SendProof Proofs.ThreadsProof.
Import ListNotations.
Open Scope Z_scope.

(* any pattern of short writes: the bytes accepted over one send_frame call are exactly the frame *)
Theorem C12_short_writes : forall fin op data k ks accept,
  In fin [0; 1] -> In op OPCODES -> bytes_ok data -> zlen data < 2 ^ 63 ->
  bytes_ok k -> length k = 4%nat ->
  exists wire acc',
    ws_send_frame fin op data (k :: ks) accept = Ok (zlen (concat wire), wire, ks, acc') /\
    concat wire = encode (client_frame fin op k data).
Proof. exact send_frame_correct. Qed.
Print Assumptions C12_short_writes.

(* The lock discipline as it is in the CURRENT source: py2v emits send_loop_in_lock (the whole
   `while data` loop of send_frame, and every _send call, lies inside `with self.lock`),
   recv_in_readlock / recv_frame_in_lock, and multithread_default (enable_multithread=True with
   real threading.Lock objects).  If a source change makes one of them false the theorems below
   no longer type-check against [true] and the proof breaks. *)
Definition send_locked : bool := send_loop_in_lock && multithread_default.
Definition recv_locked : bool := recv_in_readlock && recv_frame_in_lock && multithread_default.

(* EVERY interleaving of ANY number of senders (any frame sizes, any short writes): the final
   wire is the concatenation of whole frames in some serial order *)
Theorem C12_atomic_send : forall frames sched,
  all_sdone (srun send_locked (sinit frames) sched) = true ->
  exists perm, Permutation perm frames /\ s_wire (srun send_locked (sinit frames) sched) = concat perm.
Proof. exact atomic_send. Qed.
Print Assumptions C12_atomic_send.

(* every reachable state: wire = completed frames ++ a prefix of the lock holder's frame *)
Theorem C12_atomic_send_inv : forall frames sched, send_inv frames (srun send_locked (sinit frames) sched).
Proof. exact atomic_send_inv. Qed.
Print Assumptions C12_atomic_send_inv.

(* receivers: whenever no receiver is inside a message, the messages delivered are exactly the
   first k of the stream, each intact, each to exactly one thread *)
Theorem C12_atomic_recv : forall stream n sched, Forall (fun m => m <> []) stream ->
  let w := rrun recv_locked (rinit stream n) sched in
  r_lock w = None ->
  exists k, Permutation (delivered w) (firstn k stream) /\ r_stream w = skipn k stream /\ r_cur w = [].
Proof. exact atomic_recv. Qed.
Print Assumptions C12_atomic_recv.

Theorem C12_recv_intact : forall stream n sched m, Forall (fun m => m <> []) stream ->
  In m (delivered (rrun recv_locked (rinit stream n) sched)) -> In m stream.
Proof. exact atomic_recv_intact. Qed.
Print Assumptions C12_recv_intact.

(* the lock is necessary: without it frames tear and messages are split (witnesses by computation) *)
Theorem C12_unlocked_send_tears : exists frames sched,
  all_sdone (srun false (sinit frames) sched) = true /\
  forall perm, Permutation perm frames -> s_wire (srun false (sinit frames) sched) <> concat perm.
Proof. exact unlocked_send_tears. Qed.
Print Assumptions C12_unlocked_send_tears.
Theorem C12_unlocked_recv_tears : exists stream n sched, Forall (fun m => m <> []) stream /\
  exists m, In m (delivered (rrun false (rinit stream n) sched)) /\ ~ In m stream.
Proof. exact unlocked_recv_tears. Qed.
Print Assumptions C12_unlocked_recv_tears.
