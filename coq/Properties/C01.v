(* C01 — every frame written is a well-formed masked RFC 6455 frame with exact payload. *)
From Coq Require Import ZArith List.
From WS Require Import Base.Res Base.Bytes Spec.Frame Spec.Utf8 Gen.GenAbnf Model.Send
  Proofs.FrameCodec Proofs.SendProof Proofs.MaskBigint Proofs.Utf8Proof.
Import ListNotations.
Open Scope Z_scope.

(* The frame built for (fin, opcode, payload) with key k is exactly the RFC's canonical
   (shortest-length) masked encoding, and the independent decoder recovers fin, opcode,
   cleared reserved bits, the key and the payload — for EVERY payload below 2^63 bytes.
   [decode] answers NotShortest for a non-minimal length field, so "shortest legal length
   encoding" is part of this statement. *)
Theorem C01_wellformed : forall fin op data key rest,
  In fin [0; 1] -> In op OPCODES -> bytes_ok data -> zlen data < 2 ^ 63 ->
  bytes_ok key -> length key = 4%nat ->
  exists w, format_frame fin op data key = Ok w /\
            decode (w ++ rest) = Frame (client_frame fin op key data) rest.
Proof. exact format_wellformed. Qed.
Print Assumptions C01_wellformed.

(* One key is drawn per frame (the head of the key stream is on the wire, the tail is what
   remains), the call returns the number of frame bytes, and under ANY short-write pattern
   the bytes accepted by the transport are exactly that frame. *)
Theorem C01_count_and_key : forall fin op data k ks accept,
  In fin [0; 1] -> In op OPCODES -> bytes_ok data -> zlen data < 2 ^ 63 ->
  bytes_ok k -> length k = 4%nat ->
  exists wire acc',
    ws_send_frame fin op data (k :: ks) accept = Ok (zlen (concat wire), wire, ks, acc') /\
    concat wire = encode (client_frame fin op k data).
Proof. exact send_frame_correct. Qed.
Print Assumptions C01_count_and_key.

(* The regenerated big-integer masking routine is the RFC's bytewise cyclic xor. *)
Theorem C01_mask_bigint : forall key data, bytes_ok key -> length key = 4%nat -> bytes_ok data ->
  mask_bigint key data = xor_cyc key 0 data.
Proof. exact mask_bigint_xor. Qed.
Print Assumptions C01_mask_bigint.

(* frame length = 2 + (0|2|8) + 4 + n *)
Theorem C01_length : forall f,
  zlen (encode f) = 2 + (if zlen (wpayload f) <? 126 then 0 else if zlen (wpayload f) <? 65536 then 2 else 8)
                    + (match wkey f with Some k => zlen k | None => 0 end) + zlen (wpayload f).
Proof. exact encode_length. Qed.
Print Assumptions C01_length.

Example C01_ex : format_frame 1 1 [72; 105] [1; 2; 3; 4] = Ok [129; 130; 1; 2; 3; 4; 73; 107].
Proof. vm_compute. reflexivity. Qed.
Example C01_ex126 : exists w, format_frame 0 2 (repeat_bytes 126 7) [9; 9; 9; 9] = Ok (2 :: 254 :: 0 :: 126 :: w).
Proof. eexists. vm_compute. reflexivity. Qed.

From WS Require Import Spec.Utf8 Gen.GenUtils Proofs.Utf8Send.

(* Text: a str is a list of Unicode scalar values; send() puts str.encode("utf-8") = utf8_encode of it into the frame (tie B
   compares the two on random text incl. astral planes).  For EVERY text that payload is well-formed UTF-8 as judged by the
   validator regenerated from websocket/_utils.py, and it determines the text. *)
Theorem C01_text : forall cs, forallb scalar cs = true -> validate_utf8 (utf8_encode cs) = true.
Proof. exact text_payload_accepted. Qed.
Print Assumptions C01_text.

Theorem C01_text_injective : forall cs1 cs2,
  forallb scalar cs1 = true -> forallb scalar cs2 = true -> utf8_encode cs1 = utf8_encode cs2 -> cs1 = cs2.
Proof. exact text_payload_determines_text. Qed.
Print Assumptions C01_text_injective.

