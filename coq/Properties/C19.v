(* C19 — proxying is decided by options, environment and no_proxy exactly as documented.
   Statements only (restated verbatim from Proofs/*.v), each closed by [exact]. *)
From Coq Require Import ZArith List Bool Permutation.
From WS Require Import Base.Res Base.Bytes Base.Str Base.StrMore Base.B64 Gen.GenHandshake Model.Xport Model.Http Model.Url Model.Proxy Model.Tunnel Spec.Url Spec.Proxy Proofs.UrlProof Proofs.TunnelProof.
Import ListNotations.
Open Scope Z_scope.

(* is_no_proxy_host = the documented exemption rule, general strings, every prefix length *)
Theorem C19_exempt : forall env hostname lst,
  host_ok hostname -> list_ok lst -> lst <> [] ->
  is_no_proxy_host hostname (Some lst) env = exempt hostname lst.
Proof. exact UrlProof.C19_exempt. Qed.
Print Assumptions C19_exempt.

Theorem C19_exempt_any_source : forall hostname opt env,
  list_ok (no_proxy_list opt env) ->
  is_no_proxy_host hostname opt env = exempt hostname (no_proxy_list opt env).
Proof. exact UrlProof.C19_exempt_any_source. Qed.
Print Assumptions C19_exempt_any_source.

Theorem C19_exempt_env : forall env hostname opt,
  opt = None \/ opt = Some [] ->
  list_ok (no_proxy_list None env) ->
  is_no_proxy_host hostname opt env = exempt hostname (no_proxy_list None env)
  /\ no_proxy_list None env =
     match env_value v_no_proxy v_NO_PROXY env with [] => [] | v => split_on 44 v end.
Proof. exact UrlProof.C19_exempt_env. Qed.
Print Assumptions C19_exempt_env.

(* the full decision table of get_proxy_info *)
Theorem C19_decision : forall hostname sec ph pp pa npx env,
  list_ok (no_proxy_list npx env) ->
  get_proxy_info hostname sec ph pp pa npx env =
  if exempt hostname (no_proxy_list npx env) then Ok (None, Some 0, None)
  else match ph with
       | Some (c :: h) => if pp =? 0 then Raise ProxyErr else Ok (Some (c :: h), Some pp, pa)
       | _ => match scheme_proxy_value sec env with
              | [] => Ok (None, Some 0, None)
              | v => proxy_of_value v
              end
       end.
Proof. exact UrlProof.C19_decision. Qed.
Print Assumptions C19_decision.

Theorem C19_direct : forall hostname sec ph pp pa npx env,
  list_ok (no_proxy_list npx env) ->
  use_proxy hostname sec ph npx env = false ->
  get_proxy_info hostname sec ph pp pa npx env = Ok (None, Some 0, None).
Proof. exact UrlProof.C19_direct. Qed.
Print Assumptions C19_direct.

Theorem C19_proxied : forall hostname sec ph pp pa npx env,
  list_ok (no_proxy_list npx env) ->
  use_proxy hostname sec ph npx env = true ->
  (forall h, ph = Some h -> h <> [] ->
     get_proxy_info hostname sec ph pp pa npx env =
     if pp =? 0 then Raise ProxyErr else Ok (Some h, Some pp, pa))
  /\ (given ph = false ->
      scheme_proxy_value sec env <> [] /\
      get_proxy_info hostname sec ph pp pa npx env = proxy_of_value (scheme_proxy_value sec env)).
Proof. exact UrlProof.C19_proxied. Qed.
Print Assumptions C19_proxied.

(* https_proxy is never used for ws *)
Theorem C19_scheme_variable : forall hostname ph pp pa npx env1 env2,
  (forall k, alist_get k env1 = alist_get k env2 \/ k = v_https_proxy \/ k = v_HTTPS_PROXY) ->
  get_proxy_info hostname false ph pp pa npx env1 = get_proxy_info hostname false ph pp pa npx env2.
Proof. exact UrlProof.C19_scheme_variable. Qed.
Print Assumptions C19_scheme_variable.

(* http_proxy is never used for wss *)
Theorem C19_scheme_variable_secure : forall hostname ph pp pa npx env1 env2,
  (forall k, alist_get k env1 = alist_get k env2 \/ k = v_http_proxy \/ k = v_HTTP_PROXY) ->
  get_proxy_info hostname true ph pp pa npx env1 = get_proxy_info hostname true ph pp pa npx env2.
Proof. exact UrlProof.C19_scheme_variable_secure. Qed.
Print Assumptions C19_scheme_variable_secure.

Theorem C19_env_value_form : forall p, wf_parts p ->
  (p_userinfo p = None ->
     proxy_of_value (proxy_url p) = Ok (Some (expected_host (p_host p)), p_port p, None))
  /\ (forall user pw, p_userinfo p = Some (user ++ 58 :: pw) ->
        contains_char 58 user = false -> user <> [] ->
        proxy_of_value (proxy_url p) = Ok (Some (expected_host (p_host p)), p_port p, Some (user, pw)))
  /\ (forall user, p_userinfo p = Some user -> contains_char 58 user = false -> user <> [] ->
        proxy_of_value (proxy_url p) = Raise (Internal TypeErr)).
Proof. exact UrlProof.C19_env_value_form. Qed.
Print Assumptions C19_env_value_form.

(* through an HTTP proxy the client proceeds only on a 200 reply *)
Theorem C19_tunnel_only_on_200 : forall x host port auth x',
  tunnel x host port auth = (Ok tt, x') ->
  exists h, read_headers (xlog x (IWrite (connect_request host port auth))) = (Ok h, x') /\ h_status h = Some 200.
Proof. exact TunnelProof.tunnel_only_on_200. Qed.
Print Assumptions C19_tunnel_only_on_200.

Theorem C19_tunnel_failure_is_proxy_error : forall x host port auth e x',
  tunnel x host port auth = (Raise e, x') -> e = ProxyErr.
Proof. exact TunnelProof.tunnel_failure_is_proxy_error. Qed.
Print Assumptions C19_tunnel_failure_is_proxy_error.

(* the first transport event is the write of CONNECT host:port with Host and, when configured, Basic credentials *)
Theorem C19_tunnel_first_bytes : forall x host port auth r x',
  tunnel x host port auth = (r, x') ->
  exists tail, iolog x' = iolog x ++ IWrite (connect_request host port auth) :: tail.
Proof. exact TunnelProof.tunnel_first_bytes. Qed.
Print Assumptions C19_tunnel_first_bytes.

Theorem C19_credentials_roundtrip : forall auth c, credentials auth = Some c -> bytes_ok c ->
  b64_decode (b64_encode c) = Some c.
Proof. exact TunnelProof.credentials_roundtrip. Qed.
Print Assumptions C19_credentials_roundtrip.
