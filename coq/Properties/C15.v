(* C15 — automatic reconnection restores service after loss and stops on request.
   Statements only (restated verbatim from Proofs/*.v), each closed by [exact]. *)
From Coq Require Import ZArith List Bool Permutation.
From WS Require Import Base.Res Base.Bytes Spec.Frame Spec.Legal Spec.AppTrace Gen.GenAbnf Model.Recv Model.Conn Model.App Proofs.RecvSpec Proofs.ConnSpec Proofs.ConnProof Proofs.AppProof Gen.GenApp Proofs.AppGen Proofs.AppGuard.
Import ListNotations.
Open Scope Z_scope.

(* every abnormal loss is followed by a new attempt until one succeeds; no on_close in between *)
Theorem C15_retry : forall cfg fails last, cfg_nice cfg -> reconnect cfg <> 0 -> Forall abnormal fails ->
  let tr := trace (snd (run_forever cfg (fails ++ [last]))) in
  count_connect tr = (length fails + 1)%nat /\
  exists t1 t2, tr = t1 ++ TConnect :: t2 /\ count_connect t2 = 0%nat /\ count_close t1 = 0%nat.
Proof. exact AppProof.C15_retry. Qed.
Print Assumptions C15_retry.

(* success fires on_reconnect (on_open if none was given) *)
Theorem C15_resume : forall cfg fails evs, cfg_nice cfg -> reconnect cfg <> 0 -> Forall abnormal fails -> fails <> [] ->
  exists t1 t2, trace (snd (run_forever cfg (fails ++ [Established evs]))) = t1 ++ TConnect :: t2 /\
    count_connect t2 = 0%nat /\ count_close t1 = 0%nat /\
    (on_reconnect cfg <> Absent -> exists post, cbs_of t2 = TReconnect :: post) /\
    (on_reconnect cfg = Absent -> on_open cfg <> Absent -> exists post, cbs_of t2 = TOpen :: post).
Proof. exact AppProof.C15_resume. Qed.
Print Assumptions C15_resume.

(* once the run has ended no further attempt is made *)
Theorem C15_stop : forall cfg env1 env2, env1 <> [] -> run_ended cfg env1 ->
  run_forever cfg (env1 ++ env2) = run_forever cfg env1.
Proof. exact AppProof.C15_stop. Qed.
Print Assumptions C15_stop.

(* the run with setSock's regenerated refusal (reconnecting after close()) in front of every attempt is the run the other theorems are about: in sequential histories the refusal is never reached *)
Theorem C15_guarded_run_is_the_run : forall cfg env, run_forever_g cfg env = run_forever cfg env.
Proof. exact AppGuard.run_forever_g_eq. Qed.
Print Assumptions C15_guarded_run_is_the_run.

(* asked to reconnect once keep_running is cleared, setSock does nothing: no connection attempt, no callback *)
Theorem C15_no_attempt_after_close : forall cfg a s, keep_running s = false -> set_sock_g cfg a true s = (Normal, s).
Proof. exact AppGuard.set_sock_g_refuses. Qed.
Print Assumptions C15_no_attempt_after_close.

(* CODE TIE: the outer loop asks for a reconnection exactly when setSock's regenerated first test (reconnecting and not keep_running: return) would not refuse it *)
Theorem C15_reconnect_guard_is_the_code : forall cfg a rest r s,
  attempts_loop cfg (a :: rest) r s =
  match set_sock cfg a r s with
  | (Kbd, s1) => (Kbd, s1)
  | (Normal, s1) =>
    if negb (reconnect cfg =? 0) && negb (app_reconnect_refused true (keep_running s1))
    then attempts_loop cfg rest true s1 else (Normal, s1)
  end.
Proof. exact AppGen.reconnect_guard_gen. Qed.
Print Assumptions C15_reconnect_guard_is_the_code.

Theorem C15_stop_server_close : forall cfg fails fs closef junk env2,
  cfg_nice cfg -> Forall abnormal fails -> accepted (app_skip_utf8 cfg) fs -> a_opcode closef = 8 ->
  let last := Established (map AFrame fs ++ AFrame closef :: junk) in
  run_forever cfg ((fails ++ [last]) ++ env2) = run_forever cfg (fails ++ [last]).
Proof. exact AppProof.C15_stop_server_close. Qed.
Print Assumptions C15_stop_server_close.

Theorem C15_stop_own_close : forall cfg fails fs junk env2,
  cfg_nice cfg -> Forall abnormal fails -> accepted (app_skip_utf8 cfg) fs ->
  let last := Established (map AFrame fs ++ AOtherClose :: junk) in
  run_forever cfg ((fails ++ [last]) ++ env2) = run_forever cfg (fails ++ [last]).
Proof. exact AppProof.C15_stop_own_close. Qed.
Print Assumptions C15_stop_own_close.

Theorem C15_stop_callback_close : forall cfg evs rest,
  on_open cfg = CallClose -> nice (on_close cfg) -> nice (on_error cfg) ->
  run_forever cfg (Established evs :: rest) = run_forever cfg [Established evs] /\
  count_connect (trace (snd (run_forever cfg (Established evs :: rest)))) = 1%nat.
Proof. exact AppProof.C15_stop_callback_close. Qed.
Print Assumptions C15_stop_callback_close.

(* never more than one live transport: at each connection attempt all earlier transports are released *)
Theorem C15_single : forall cfg env, exists k, (k <= length env)%nat /\
  let tr := trace (snd (run_forever cfg env)) in
  count_connect tr = k /\
  sc_at_connects 0 tr = est_prefixes 0 (firstn k env) /\
  sc tr = est_among (firstn k env).
Proof. exact AppProof.C15_single. Qed.
Print Assumptions C15_single.

Theorem C15_single_step : forall cfg a rc s fl s', set_sock cfg a rc s = (fl, s') ->
  Tidy s -> (rc = false -> sock_open s = false) ->
  Tidy s' /\ (sc (trace s') + b2n (sock_open s') = sc (trace s) + b2n (sock_open s) + opens a)%nat /\
  exists l1, trace s' = trace s ++ (if sock_open s then [TSockClosed] else []) ++ TConnect :: l1
             /\ count_connect l1 = 0%nat.
Proof. exact AppProof.C15_single_step. Qed.
Print Assumptions C15_single_step.
