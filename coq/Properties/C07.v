(* C07 — every ping is answered exactly once with a pong carrying the same payload. *)
From Coq Require Import ZArith List.
From WS Require Import Base.Res Base.Bytes Spec.Frame Spec.Legal Model.Recv Model.Conn Model.Send
  Gen.GenAbnf Proofs.RecvSpec Proofs.ConnSpec Proofs.ConnProof Proofs.SendProof Base.GenPrelude Spec.Stream Model.Xport Proofs.WsDrainSpec Proofs.WsDrainProof.
Import ListNotations.
Open Scope Z_scope.

(* for ANY frame stream, any flags, any reassembly state: the pongs requested during the
   receive calls are exactly one per ping, same payload, in arrival order *)
Theorem C07_pongs : forall fire skip control fs conn cf,
  Forall (fun f => a_opcode f = OP_PING -> zlen (a_data f) <= 125) fs ->
  filter is_pong_obs (run_frames fire skip control conn cf fs) = map OPong (pongs_owed (map wframe_of fs)).
Proof. exact ConnProof.C07_pongs. Qed.
Print Assumptions C07_pongs.

Theorem C07_one_pong : forall fire skip control conn cf f,
  a_opcode f = OP_PING -> zlen (a_data f) <= 125 ->
  s_writes (handle_frame fire skip control conn cf f) = [WPong (a_data f)].
Proof. exact ConnProof.C07_one_pong. Qed.
Print Assumptions C07_one_pong.

(* nothing is written in response to pongs or data frames *)
Theorem C07_only_replies : forall fire skip control conn cf f,
  a_opcode f <> OP_PING -> a_opcode f <> OP_CLOSE ->
  s_writes (handle_frame fire skip control conn cf f) = [].
Proof. exact ConnProof.C07_only_replies. Qed.
Print Assumptions C07_only_replies.

(* the pong written for payload p with key k is a well-formed masked FIN pong frame (C01) *)
Theorem C07_pong_wellformed : forall p k rest,
  bytes_ok p -> zlen p <= 125 -> bytes_ok k -> length k = 4%nat ->
  exists w, format_frame 1 OPCODE_PONG p k = Ok w /\
            decode (w ++ rest) = Frame (client_frame 1 OPCODE_PONG k p) rest.
Proof.
  intros p k rest Hp Hl Hk Hk4. apply format_wellformed; auto.
  - cbn; auto.
  - unfold OPCODES, OPCODE_PONG. cbn. tauto.
  - apply Z.le_lt_trans with 125; [exact Hl|reflexivity].
Qed.
Print Assumptions C07_pong_wellformed.

Example C07_ex :
  filter is_pong_obs (run_frames false false false true cf_init
    [{| a_fin := 1; a_rsv1 := 0; a_rsv2 := 0; a_rsv3 := 0; a_opcode := 9; a_mask := 0; a_data := [7] |};
     {| a_fin := 1; a_rsv1 := 0; a_rsv2 := 0; a_rsv3 := 0; a_opcode := 10; a_mask := 0; a_data := [8] |};
     {| a_fin := 1; a_rsv1 := 0; a_rsv2 := 0; a_rsv3 := 0; a_opcode := 9; a_mask := 0; a_data := [] |}])
  = [OPong [7]; OPong []].
Proof. vm_compute. reflexivity. Qed.

(* END TO END: the bytes the client writes while the caller drains the connection are exactly the
   automatic replies (one pong per ping with the same payload, the close reply), each masked with
   the next fresh key, in order -- and nothing else. *)
Theorem C07_end_to_end_writes : forall fire skip control l ks,
  script_ok l = true -> no_reset l = true -> bytes_ok (flatten l) -> keys_enough ks l ->
  let rs := replies_of fire skip control true cf_init
              (stream_results (code_verdict skip) (drain_fuel l) (flatten l)) in
  writes_of (all_io (snd (ws_drain (drain_fuel l) control (ws_init (mk_xport l) ks fire skip)))) =
    zip_replies rs ks /\
  (length rs <= length ks)%nat /\
  map Ok (zip_replies rs ks) = map (fun rk => reply_bytes (fst rk) (snd rk)) (combine rs ks).
Proof. exact ws_drain_writes. Qed.
Print Assumptions C07_end_to_end_writes.

(* ... and each reply is written BEFORE the client reads anything beyond the frame that caused it:
   replaying the I/O log against the script, the number of stream bytes the transport still holds
   at each write equals the length of the stream after the triggering frame. *)
Theorem C07_pong_before_next_read : forall fire skip control l ks,
  script_ok l = true -> no_reset l = true -> bytes_ok (flatten l) -> keys_enough ks l ->
  write_marks l (all_io (snd (ws_drain (drain_fuel l) control (ws_init (mk_xport l) ks fire skip)))) =
  reply_marks fire skip control true cf_init (drain_fuel l) (flatten l).
Proof. exact pong_before_next_read. Qed.
Print Assumptions C07_pong_before_next_read.
