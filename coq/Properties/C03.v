(* C03 — delivery is independent of transport segmentation and survives receive timeouts. *)
From Coq Require Import ZArith List.
From WS Require Import Base.Res Base.Bytes Spec.Frame Spec.Stream Model.Xport Model.Recv
  Proofs.RecvSpec Proofs.RecvProof.
Import ListNotations.
Open Scope Z_scope.

(* Two transports that deliver the same bytes — split into reads in any way, down to single
   bytes, with any number of timeouts at any positions — give identical sequences of frames,
   protocol errors and end-of-stream report. *)
Theorem C03_segmentation : forall skip l1 l2,
  script_ok l1 = true -> script_ok l2 = true -> no_reset l1 = true -> no_reset l2 = true ->
  bytes_ok (flatten l1) -> flatten l1 = flatten l2 ->
  drain (drain_fuel l1) skip fb_init (mk_xport l1) = drain (drain_fuel l2) skip fb_init (mk_xport l2).
Proof. exact segmentation_independent. Qed.
Print Assumptions C03_segmentation.

(* A timeout at any byte position loses, duplicates and reorders nothing: the bytes already
   parsed into stage memos, the receive buffer and what the transport still holds reserialise
   to the same stream, and the parser invariant survives, so the retried call resumes. *)
Theorem C03_resume : forall skip fb x fb' x',
  fb_inv fb -> script_ok (inbox x) = true -> bytes_ok (flatten (inbox x)) ->
  recv_frame (fuel_for (inbox x)) skip fb x = (Raise TimedOut, fb', x') ->
  fb_inv fb' /\
  reserialise fb' ++ flatten (inbox x') = reserialise fb ++ flatten (inbox x) /\
  (length (inbox x') < length (inbox x))%nat.
Proof. exact recv_frame_timeout_resume. Qed.
Print Assumptions C03_resume.

(* no call spins: the fuel "one step per byte or event" is never exhausted *)
Theorem C03_progress : forall skip fb x r fb' x',
  recv_frame (fuel_for (inbox x)) skip fb x = (r, fb', x') -> script_ok (inbox x) = true ->
  r <> Raise OutOfFuel.
Proof. exact recv_frame_never_out_of_fuel. Qed.
Print Assumptions C03_progress.

Example C03_ex :
  drain 30 false fb_init (mk_xport [Data [129]; Timeout; Data [2]; Data [72]; Timeout; Timeout; Data [105]])
  = drain 30 false fb_init (mk_xport [Data [129; 2; 72; 105]]).
Proof. vm_compute. reflexivity. Qed.

From WS Require Import Base.GenPrelude Spec.Stream Model.Xport Model.Conn Proofs.ConnSpec Proofs.WsDrainSpec Proofs.WsDrainProof Proofs.WsDrainSeg.

(* END TO END on the connection object: two scripts that carry the same bytes -- cut into segments anywhere, with receive
   timeouts anywhere (the caller retries) -- give the caller the same sequence of observations and make the client write the
   same replies. *)
Theorem C03_end_to_end : forall fire skip control l1 l2 ks1 ks2,
  script_ok l1 = true -> no_reset l1 = true -> bytes_ok (flatten l1) -> keys_enough ks1 l1 ->
  script_ok l2 = true -> no_reset l2 = true -> keys_enough ks2 l2 ->
  flatten l1 = flatten l2 ->
  fst (ws_drain (drain_fuel l1) control (ws_init (mk_xport l1) ks1 fire skip)) =
  fst (ws_drain (drain_fuel l2) control (ws_init (mk_xport l2) ks2 fire skip)).
Proof. exact ws_drain_segmentation_independent. Qed.
Print Assumptions C03_end_to_end.

Theorem C03_end_to_end_writes : forall fire skip control l1 l2 ks,
  script_ok l1 = true -> no_reset l1 = true -> bytes_ok (flatten l1) -> keys_enough ks l1 ->
  script_ok l2 = true -> no_reset l2 = true ->
  flatten l1 = flatten l2 ->
  writes_of (all_io (snd (ws_drain (drain_fuel l1) control (ws_init (mk_xport l1) ks fire skip)))) =
  writes_of (all_io (snd (ws_drain (drain_fuel l2) control (ws_init (mk_xport l2) ks fire skip)))).
Proof. exact ws_drain_writes_segmentation_independent. Qed.
Print Assumptions C03_end_to_end_writes.

