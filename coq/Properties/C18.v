(* C18 — the URL alone determines target, port, resource and TLS; all addresses are tried.
   Statements only (restated verbatim from Proofs/*.v), each closed by [exact]. *)
From Coq Require Import ZArith List Bool Permutation.
From WS Require Import Base.Res Base.Bytes Base.Str Base.StrMore Gen.GenHandshake Model.Url Model.Open Spec.Url Proofs.UrlProof Proofs.ConnectProof.
Import ListNotations.
Open Scope Z_scope.

(* every URL of the grammar parses to (host without brackets, port or default, path-or-/ ++ ?query, wss flag) *)
Theorem C18_parse : forall p, wf_parts p -> parse_url (render p) = Ok (expected p).
Proof. exact UrlProof.C18_parse. Qed.
Print Assumptions C18_parse.

Theorem C18_default_ports : forall p, wf_parts p ->
  (p_port p = None -> p_scheme p = SWs ->
     parse_url (render p) = Ok (expected_host (p_host p), 80, expected_resource p, false))
  /\ (p_port p = None -> p_scheme p = SWss ->
     parse_url (render p) = Ok (expected_host (p_host p), 443, expected_resource p, true))
  /\ (forall n, p_port p = Some n ->
     parse_url (render p) = Ok (expected_host (p_host p), n, expected_resource p, expected_secure p))
  /\ ((exists h n r, parse_url (render p) = Ok (h, n, r, true)) <-> p_scheme p = SWss).
Proof. exact UrlProof.C18_default_ports. Qed.
Print Assumptions C18_default_ports.

(* the defaults are the constants regenerated from the source *)
Theorem C18_code_constants :
  default_port_ws = 80 /\ default_port_wss = 443 /\ ws_is_secure = false /\ wss_is_secure = true.
Proof. exact UrlProof.C18_code_constants. Qed.
Print Assumptions C18_code_constants.

Theorem C18_reject_no_colon : forall s, contains_char 58 s = false -> parse_url s = Raise ValueErr.
Proof. exact UrlProof.C18_reject_no_colon. Qed.
Print Assumptions C18_reject_no_colon.

Theorem C18_reject_scheme : forall p sch,
  wf_parts p -> contains_char 58 sch = false -> sch <> s_ws -> sch <> s_wss ->
  parse_url (render_with_scheme sch p) = Raise ValueErr.
Proof. exact UrlProof.C18_reject_scheme_general. Qed.
Print Assumptions C18_reject_scheme.

Theorem C18_reject_no_host :
  (forall sch rest, contains_char 58 sch = false -> contains_char 58 rest = false ->
     starts_with [47; 47] rest = false -> parse_url (sch ++ 58 :: rest) = Raise ValueErr)
  /\ (forall sch p, contains_char 58 sch = false -> wf_parts p ->
        parse_url (render_without_host sch p) = Raise ValueErr).
Proof. exact UrlProof.C18_reject_no_host. Qed.
Print Assumptions C18_reject_no_host.

(* KNOWN FINDING: a path ending in ';' loses that character *)
Theorem C18_trailing_semicolon_refuted :
  exists p, wf_host (p_host p) = true /\ forallb path_char (p_path p) = true
            /\ parse_url (render p) <> Ok (expected p).
Proof. exact UrlProof.C18_trailing_semicolon_refuted. Qed.
Print Assumptions C18_trailing_semicolon_refuted.

(* addresses are tried in order until one accepts; refused/unreachable never abort *)
Theorem C18_addresses_accept : forall pre post,
  Forall soft pre ->
  open_socket (pre ++ AAccept :: post) =
  (Ok (length pre),
   flat_map (fun i => prep i ++ [SCloseSock i]) (seq 0 (length pre)) ++ prep (length pre)).
Proof. exact ConnectProof.open_socket_accept. Qed.
Print Assumptions C18_addresses_accept.

Theorem C18_addresses_other_error : forall pre e post,
  Forall soft pre ->
  open_socket (pre ++ AOther e :: post) =
  (Raise (Transport e),
   flat_map (fun i => prep i ++ [SCloseSock i]) (seq 0 (length pre))
     ++ prep (length pre) ++ [SCloseSock (length pre)]).
Proof. exact ConnectProof.open_socket_other. Qed.
Print Assumptions C18_addresses_other_error.

(* all fail: the last refusal is raised, every socket was prepared and closed *)
Theorem C18_addresses_all_fail : forall l a,
  Forall soft (l ++ [a]) ->
  open_socket (l ++ [a]) =
  (Raise (Transport (errno_of a)),
   flat_map (fun i => prep i ++ [SCloseSock i]) (seq 0 (length l + 1))).
Proof. exact ConnectProof.open_socket_all_soft. Qed.
Print Assumptions C18_addresses_all_fail.

(* timeout, default and user options are applied to every socket before connect *)
Theorem C18_every_socket_prepared : forall addrs r lg i,
  open_socket addrs = (r, lg) -> In (SConnect i) lg ->
  exists l1 l2, lg = l1 ++ prep i ++ l2.
Proof. exact ConnectProof.open_socket_prepared. Qed.
Print Assumptions C18_every_socket_prepared.
