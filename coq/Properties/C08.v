(* C08 — placeholder until Proofs/CloseProof.v lands: at most one automatic close reply. *)
From Coq Require Import ZArith List.
From WS Require Import Base.Res Base.Bytes Model.Recv Model.Conn Proofs.ConnSpec Proofs.ConnProof.
Import ListNotations.
Open Scope Z_scope.
Theorem C08_close_reply_once : forall fire skip control fs cf conn,
  (length (filter (fun o => match o with OCloseReply => true | _ => false end)
                  (run_frames fire skip control conn cf fs)) <= 1)%nat.
Proof. exact ConnProof.C08_close_reply_once. Qed.
Print Assumptions C08_close_reply_once.
