(* C08 — closing handshake and connection state follow one consistent state machine. *)
From Coq Require Import ZArith List.
From WS Require Import Base.Res Base.Bytes Spec.Frame Gen.GenAbnf Gen.GenCore Model.Xport Model.Recv Model.Send
  Model.Conn Model.Script Proofs.SendProof Proofs.CloseSpec Proofs.CloseProof.
Import ListNotations.
Open Scope Z_scope.

(* Over ANY sequence of API calls and ANY server behaviour on a fresh connection, at most one
   close frame is ever written on the client's own initiative (its close() or the automatic
   reply to the server's close frame). *)
Theorem C08_one_close : forall x ks fire skip os,
  iolog x = [] -> forallb implicit_only os = true ->
  (close_count (all_io (snd (run_ops (ws_init x ks fire skip) os))) <= 1)%nat.
Proof. exact C08_one_close_fresh. Qed.
Print Assumptions C08_one_close.

(* ... and with explicit send_close()/send(.., OPCODE_CLOSE) calls in the history, at most one more per such call *)
Theorem C08_close_bound : forall x ks fire skip os, iolog x = [] ->
  (close_count (all_io (snd (run_ops (ws_init x ks fire skip) os)))
   <= 1 + length (filter (fun o => negb (implicit_only o)) os))%nat.
Proof. exact C08_close_bound_fresh. Qed.
Print Assumptions C08_close_bound.

(* the close frame carries the requested status and reason in the RFC encoding (masked, FIN) *)
Theorem C08_encoding : forall w st reason k ks x,
  connected w = true -> sock w = Some x -> keys w = k :: ks -> 0 <= st < 65536 ->
  bytes_ok reason -> zlen reason < 2 ^ 62 -> bytes_ok k -> length k = 4%nat ->
  exists w1, ws_send_close w st reason = (Ok tt, w1) /\ connected w1 = false /\ keys w1 = ks /\
    sock w1 = Some (xlog x (IWrite (encode (client_frame 1 OPCODE_CLOSE k (be_encode 2 st ++ reason))))).
Proof. exact CloseProof.C08_encoding. Qed.
Print Assumptions C08_encoding.

(* out-of-range statuses are refused before anything is written or changed *)
Theorem C08_range_first : forall w st r,
  connected w = true -> close_bad_status st = true -> ws_close w st r = (Raise ValueErr, w).
Proof. exact CloseProof.C08_range_first. Qed.
Print Assumptions C08_range_first.
Theorem C08_range_first_send_close : forall w st r,
  send_close_bad_status st = true -> ws_send_close w st r = (Raise ValueErr, w).
Proof. exact CloseProof.C08_range_first_send_close. Qed.
Print Assumptions C08_range_first_send_close.
Theorem C08_bad_status_iff : forall st, close_bad_status st = true <-> (st < 0 \/ st >= 65536).
Proof. exact bad_status_iff. Qed.
Print Assumptions C08_bad_status_iff.

(* close() releases the transport; so does a lost connection *)
Theorem C08_close_releases : forall w st r res w',
  ws_inv w -> ws_close w st r = (res, w') -> res = Ok tt -> sock w' = None /\ connected w' = false.
Proof. exact CloseProof.C08_close_releases. Qed.
Print Assumptions C08_close_releases.
Theorem C08_loss_releases : forall w w',
  ws_recv_frame w = (Raise ConnClosed, w') -> sock w' = None /\ connected w' = false.
Proof. exact CloseProof.C08_loss_releases. Qed.
Print Assumptions C08_loss_releases.

(* once released: every later call leaves the object closed, touches no transport, and every
   send/receive/ping raises the connection-closed exception *)
Theorem C08_closed_sticky : forall w o, sock w = None -> ws_inv w ->
  let '(r, w') := run_op w o in
  sock w' = None /\ connected w' = false /\ all_io w' = all_io w /\
  (needs_transport o = true -> payload_len o < 2 ^ 63 ->
   r = RExn ConnClosed \/ (r = RExn OutOfFuel /\ keys w = [] /\ is_recv_op o = false)).
Proof. exact C08_closed_sticky_partial. Qed.
Print Assumptions C08_closed_sticky.
(* (OutOfFuel only says the model's finite key stream was empty; the real key source never is.) *)

(* the one transport is closed at most once, and the invariant "no transport => not connected" holds throughout *)
Theorem C08_transport_closed_once : forall x ks fire skip os, iolog x = [] ->
  (length (filter is_transport_close (all_io (snd (run_ops (ws_init x ks fire skip) os)))) <= 1)%nat.
Proof. exact C08_transport_closed_once_fresh. Qed.
Print Assumptions C08_transport_closed_once.
Theorem C08_invariant : forall x ks fire skip os, ws_inv (snd (run_ops (ws_init x ks fire skip) os)).
Proof. exact C08_inv_run. Qed.
Print Assumptions C08_invariant.

(* close() itself always returns: [ws_close] is a total function whose wait loop ([close_wait]) stops at
   the first close frame, exception, timeout or end of stream.  How long that takes in wall-clock
   time is outside the model; the virtual-clock runs of ./check C08 cover it. *)
