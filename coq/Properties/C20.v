(* C20 — cookies are replayed only to hosts inside the domain that set them.
   Statements only (restated verbatim from Proofs/*.v), each closed by [exact]. *)
From Coq Require Import ZArith List Bool Permutation.
From WS Require Import Base.Res Base.Bytes Base.Str Model.Cookie Spec.Cookie Proofs.CookieProof.
Import ListNotations.
Open Scope Z_scope.

(* a cookie is only ever sent to a host covered by a Domain named in the response that stored it *)
Theorem C20_scope : forall (history : list (list morsel)) (host nm v : str),
  In (nm, v) (jar_select (jar_of_history history) host) ->
  exists response dm nm0 v0 d,
    In response history /\ In (nm, v, dm) response /\
    In (nm0, v0, Some d) response /\ d <> [] /\ covers d host = true.
Proof. exact CookieProof.C20_scope. Qed.
Print Assumptions C20_scope.

Theorem C20_never_outside : forall (history : list (list morsel)) (host : str),
  (forall response nm v d, In response history -> In (nm, v, Some d) response -> covers d host = false) ->
  jar_select (jar_of_history history) host = [] /\ jar_get (jar_of_history history) host = [].
Proof. exact CookieProof.C20_never_outside. Qed.
Print Assumptions C20_never_outside.

Theorem C20_no_domain_stores_nothing : forall (j : jar) (ms : list morsel),
  (forall m, In m ms -> snd m = None \/ snd m = Some []) -> jar_add j ms = j.
Proof. exact CookieProof.C20_no_domain_stores_nothing. Qed.
Print Assumptions C20_no_domain_stores_nothing.

(* for ALL histories the Cookie header equals the spec's *)
Theorem C20_exact : forall (history : list (list morsel)) (host : str) (cc : option str),
  host <> [] ->
  cookie_header (jar_of_history history) host cc = spec_header history host cc.
Proof. exact CookieProof.C20_exact. Qed.
Print Assumptions C20_exact.

(* degenerate corner (empty host), unreachable through connect() *)
Theorem C20_exact_empty_host_refuted :
  exists history cc, cookie_header (jar_of_history history) [] cc <> spec_header history [] cc.
Proof. exact CookieProof.C20_exact_empty_host_refuted. Qed.
Print Assumptions C20_exact_empty_host_refuted.

Theorem C20_latest_wins_is_per_domain :
  exists history host,
    cookie_header (jar_of_history history) host None
    = Some [97; 61; 49; 59; 32; 97; 61; 50].
Proof. exact CookieProof.C20_latest_wins_is_per_domain. Qed.
Print Assumptions C20_latest_wins_is_per_domain.
