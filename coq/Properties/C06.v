(* C06 — text is delivered only if its whole payload is well-formed UTF-8.
   Only statements, closed by [exact]; proofs live in Proofs/. *)
From Coq Require Import ZArith List.
From WS Require Import Base.Res Base.Bytes Spec.Frame Spec.Utf8 Spec.Legal Gen.GenUtils Model.Recv Model.Conn
  Proofs.Utf8Proof Proofs.RecvSpec Proofs.ConnSpec Proofs.ConnProof Proofs.Utf8Adequacy.
Import ListNotations.
Open Scope Z_scope.

(* For EVERY byte string, the validator regenerated from websocket/_utils.py
   accepts exactly the well-formed UTF-8 sequences of Unicode Table 3-7. *)
Theorem C06_validator : forall l, bytes_ok l -> validate_utf8 l = wf_utf8 l.
Proof. exact validator_correct. Qed.
Print Assumptions C06_validator.

(* Validity is judged on the REASSEMBLED message (a code point split across fragments is
   accepted), an ill-formed text message raises the payload exception and nothing is
   delivered, and with validation off (skip = true) the bytes pass through unchanged:
   [judge_msg skip (op, d)] is [OFail Payload] exactly when op is text, validation is on and
   [wf_utf8 d] is false, else [ODeliver op 1 d]. *)
Theorem C06_message : forall skip conn fs,
  Forall abnf_ok fs -> frames_legal skip fs = true -> no_close fs = true ->
  filter is_data_obs (run_frames false skip false conn cf_init fs)
  = map (judge_msg skip) (reassemble None (map wframe_of fs)).
Proof. exact ConnProof.C04_reassembly. Qed.
Print Assumptions C06_message.

(* a close reason that is not well-formed UTF-8 makes the frame illegal => protocol exception *)
Theorem C06_close_reason : forall f, fields_ok f ->
  frame_verdict true f = Illegal -> code_verdict false f = Raise Protocol.
Proof. exact C05_frame_sound. Qed.
Print Assumptions C06_close_reason.

(* non-vacuity / sanity: a 4-byte scalar, a truncated one, a surrogate, an overlong *)
Example C06_ex_accept : validate_utf8 [240; 144; 128; 128; 226; 130; 172; 65] = true.
Proof. vm_compute. reflexivity. Qed.
Example C06_ex_truncated : validate_utf8 [226; 130] = false.
Proof. vm_compute. reflexivity. Qed.
Example C06_ex_surrogate : validate_utf8 [237; 160; 128] = false.
Proof. vm_compute. reflexivity. Qed.
Example C06_ex_overlong : validate_utf8 [192; 128] = false.
Proof. vm_compute. reflexivity. Qed.

(* Adequacy of the table-driven specification itself: the byte strings accepted are EXACTLY the
   UTF-8 encodings of sequences of Unicode scalar values (no surrogates, nothing above U+10FFFF,
   no overlong forms), and the encoding is injective -- so "valid UTF-8" means what RFC 3629 says. *)
Theorem C06_accepts_exactly_scalar_encodings : forall l, bytes_ok l ->
  (validate_utf8 l = true <-> exists cs, forallb scalar cs = true /\ l = utf8_encode cs).
Proof. exact validator_accepts_exactly_scalar_encodings. Qed.
Print Assumptions C06_accepts_exactly_scalar_encodings.

Theorem C06_encoding_injective : forall cs1 cs2,
  forallb scalar cs1 = true -> forallb scalar cs2 = true ->
  utf8_encode cs1 = utf8_encode cs2 -> cs1 = cs2.
Proof. exact utf8_encode_injective. Qed.
Print Assumptions C06_encoding_injective.

From Coq Require Import Bool.
From WS Require Import Base.GenPrelude Gen.GenAbnf Gen.GenCore Model.Xport Model.Send Model.Script Proofs.RecvApi.

(* WebSocket.recv() on top of the message-level receive: a str is returned only for well-formed UTF-8, and the payload of a
   data message is never altered -- with validation off a text payload that cannot be decoded is handed over as bytes. *)
Theorem C06_recv_str_wellformed : forall w d w', ws_recv w = (RRecv 1 d, w') -> validate_utf8 d = true.
Proof. exact ws_recv_str_wellformed. Qed.
Print Assumptions C06_recv_str_wellformed.

Theorem C06_recv_passthrough : forall w op f w',
  ws_recv_data_frame (rdf_fuel w) false w = (Ok (op, f), w') ->
  (op =? OPCODE_TEXT) || (op =? OPCODE_BINARY) = true ->
  exists k, ws_recv w = (RRecv k (a_data f), w') /\ (k = 1 \/ k = 2).
Proof. exact ws_recv_passthrough. Qed.
Print Assumptions C06_recv_passthrough.

