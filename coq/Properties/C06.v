(* C06 — text is delivered only if its whole payload is well-formed UTF-8.
   Only statements, closed by [exact]; proofs live in Proofs/. *)
From Coq Require Import ZArith List.
From WS Require Import Base.Bytes Spec.Utf8 Gen.GenUtils Proofs.Utf8Proof.
Import ListNotations.
Open Scope Z_scope.

(* For EVERY byte string, the validator regenerated from websocket/_utils.py
   accepts exactly the well-formed UTF-8 sequences of Unicode Table 3-7. *)
Theorem C06_validator : forall l, bytes_ok l -> validate_utf8 l = wf_utf8 l.
Proof. exact validator_correct. Qed.
Print Assumptions C06_validator.

(* non-vacuity / sanity: a 4-byte scalar, a truncated one, a surrogate, an overlong *)
Example C06_ex_accept : validate_utf8 [240; 144; 128; 128; 226; 130; 172; 65] = true.
Proof. vm_compute. reflexivity. Qed.
Example C06_ex_truncated : validate_utf8 [226; 130] = false.
Proof. vm_compute. reflexivity. Qed.
Example C06_ex_surrogate : validate_utf8 [237; 160; 128] = false.
Proof. vm_compute. reflexivity. Qed.
Example C06_ex_overlong : validate_utf8 [192; 128] = false.
Proof. vm_compute. reflexivity. Qed.
