(* C09 — a connection is reported established only after a valid upgrade response.
   Statements only (restated verbatim from Proofs/*.v), each closed by [exact]. *)
From Coq Require Import ZArith List Bool Permutation.
From WS Require Import Base.Res Base.Bytes Base.Str Base.B64 Gen.GenHandshake Spec.HttpReq Model.Xport Model.Http Model.Handshake Model.Url Model.Open Model.Connect Proofs.HandshakeProof Proofs.ConnectProof.
Import ListNotations.
Open Scope Z_scope.

(* the regenerated-constant validator accepts only what RFC 6455 4.2.2 accepts *)
Theorem C09_validate_sound : forall hs key subs sub,
  hs_validate hs key subs = (true, sub) ->
  response_accepts 101 hs key subs = true /\
  (subs = [] -> sub = None) /\
  (subs <> [] -> exists v, alist_get S_sec_proto hs = Some v /\ sub = Some (lower v)).
Proof. exact HandshakeProof.validate_sound. Qed.
Print Assumptions C09_validate_sound.

(* ... and accepts every valid response (corner: an empty offered subprotocol echoed as an empty value) *)
Theorem C09_validate_complete : forall hs key subs,
  (subs <> [] -> alist_get S_sec_proto hs <> Some []) ->
  response_accepts 101 hs key subs = true -> fst (hs_validate hs key subs) = true.
Proof. exact HandshakeProof.validate_complete_partial. Qed.
Print Assumptions C09_validate_complete.

(* one request/response exchange succeeds only with status 101 and a valid upgrade for the key sent *)
Theorem C09_exchange_only_if : forall x req key subs st hs sub x',
  handshake x req key subs = (Ok (HsOk st hs sub), x') ->
  st = 101 /\ response_accepts 101 hs key subs = true.
Proof. exact HandshakeProof.handshake_ok_only_if. Qed.
Print Assumptions C09_exchange_only_if.

Theorem C09_redirect_is_not_success : forall x req key subs st hs x',
  handshake x req key subs = (Ok (HsRedirect st hs), x') ->
  In st SUPPORTED_REDIRECT_STATUSES /\ st <> 101.
Proof. exact HandshakeProof.handshake_redirect_is_not_ok. Qed.
Print Assumptions C09_redirect_is_not_success.

(* connect() returns connected only if the FINAL response is a valid upgrade for the key sent in that very request *)
Theorem C09_connected_only_if : forall url o limit prepared st st',
  ws_connect url o limit prepared st = (Ok tt, st') ->
  cs_connected st' = true /\ cs_status st' = Some 101 /\
  exists x0 req key hs sub x,
    cs_sock st' = Some x /\
    last (cs_requests st') (req, key) = (req, key) /\ cs_requests st' <> [] /\
    handshake x0 req key (o_subprotocols o) = (Ok (HsOk 101 hs sub), x) /\
    response_accepts 101 hs key (o_subprotocols o) = true /\
    cs_subproto st' = sub.
Proof. exact ConnectProof.connect_ok_only_if. Qed.
Print Assumptions C09_connected_only_if.

(* at most redirect_limit redirects are followed *)
Theorem C09_redirect_bound : forall url o limit prepared st r st',
  0 <= limit ->
  ws_connect url o limit prepared st = (r, st') ->
  (length (cs_requests st') <= length (cs_requests st) + Z.to_nat limit + 1)%nat.
Proof. exact ConnectProof.connect_redirect_bound. Qed.
Print Assumptions C09_redirect_bound.

Theorem C09_redirect_never_success : forall url o limit prepared st st',
  ws_connect url o limit prepared st = (Ok tt, st') ->
  exists status,
    cs_status st' = Some status /\ ~ In status SUPPORTED_REDIRECT_STATUSES /\
    exists x0 req key hs sub x,
      cs_sock st' = Some x /\ cs_requests st' <> [] /\
      last (cs_requests st') (req, key) = (req, key) /\
      handshake x0 req key (o_subprotocols o) = (Ok (HsOk status hs sub), x) /\
      (forall hs', Ok (HsOk status hs sub) <> Ok (HsRedirect status hs')).
Proof. exact ConnectProof.connect_redirect_never_success. Qed.
Print Assumptions C09_redirect_never_success.

(* in every other case the call raises and the object stays unconnected *)
Theorem C09_failure_clean : forall url o limit prepared st e st',
  ws_connect url o limit prepared st = (Raise e, st') ->
  cs_connected st = false -> cs_sock st = None ->
  cs_connected st' = false /\ cs_sock st' = None.
Proof. exact ConnectProof.connect_failure_clean. Qed.
Print Assumptions C09_failure_clean.

(* ... and every transport that was opened has been closed *)
Theorem C09_failure_closes : forall url o limit prepared st e st',
  ws_connect url o limit prepared st = (Raise e, st') ->
  Forall (fun x => In IClose (iolog x)) (cs_released st) ->
  Forall (fun x => In IClose (iolog x)) (cs_released st').
Proof. exact ConnectProof.connect_failure_closes. Qed.
Print Assumptions C09_failure_closes.

Theorem C09_success_closes : forall url o limit prepared st st',
  ws_connect url o limit prepared st = (Ok tt, st') ->
  Forall (fun x => In IClose (iolog x)) (cs_released st) ->
  Forall (fun x => In IClose (iolog x)) (cs_released st').
Proof. exact ConnectProof.connect_success_closes. Qed.
Print Assumptions C09_success_closes.

(* every request carries the base64 of its own fresh 16-byte draw *)
Theorem C09_fresh_keys : forall url o limit prepared st r st',
  o_header o = HNone ->
  ws_connect url o limit prepared st = (r, st') ->
  exists k,
    map snd (skipn (length (cs_requests st)) (cs_requests st')) = map b64_encode (firstn k (cs_rand st)) /\
    cs_rand st' = skipn k (cs_rand st).
Proof. exact ConnectProof.connect_fresh_keys. Qed.
Print Assumptions C09_fresh_keys.
