(* C11 — TLS peers are authenticated by default; only explicit options relax it.
   Statements only (restated verbatim from Proofs/*.v), each closed by [exact]. *)
From Coq Require Import ZArith List Bool Permutation.
From WS Require Import Base.Res Base.Bytes Base.Str Model.Tls Proofs.TlsProof.
Import ListNotations.
Open Scope Z_scope.

(* wss with no options: CERT_REQUIRED, hostname check, SNI = URL host, default CAs *)
Theorem C11_default : forall host,
  tls_plan true empty_opt NoBundle host = Ok (Wrap (default_plan host)).
Proof. exact TlsProof.C11_default. Qed.
Print Assumptions C11_default.

Theorem C11_ws_never : forall opt env host, tls_plan false opt env host = Ok NoWrap.
Proof. exact TlsProof.C11_ws_never. Qed.
Print Assumptions C11_ws_never.

Theorem C11_wss_never_plain : forall have_ssl opt env host,
  connect_tls have_ssl true opt env host <> Ok NoWrap /\ tls_plan true opt env host <> Ok NoWrap.
Proof. exact TlsProof.C11_wss_never_plain. Qed.
Print Assumptions C11_wss_never_plain.

(* verification is weakened only through the documented options *)
Theorem C11_only_documented : forall opt env host w,
  tls_plan true opt env host = Ok (Wrap w) ->
  (verify_mode w <> 2 -> (exists z, cert_reqs opt = Some z /\ z <> 2) \/ context opt = true) /\
  (check_host w = false -> check_hostname opt = Some false \/ cert_reqs opt = Some 0 \/ context opt = true) /\
  (server_name w <> host -> exists s, server_hostname opt = Some s /\ s <> []) /\
  (custom_context w = false ->
   truthy_o (ca_certs opt) = false -> truthy_o (ca_cert_path opt) = false -> env_effective env = false ->
   ca_file w = None /\ ca_path w = None /\ load_default_certs w = negb (verify_mode w =? 0)) /\
  (custom_context w = true <-> context opt = true).
Proof. exact TlsProof.C11_only_documented. Qed.
Print Assumptions C11_only_documented.

Theorem C11_other_keys_do_not_interfere : forall b o cf sv ci cc ec env host,
  sec_view (tls_plan b (with_others o cf sv ci cc ec) env host) = sec_view (tls_plan b o env host).
Proof. exact TlsProof.C11_other_keys_do_not_interfere. Qed.
Print Assumptions C11_other_keys_do_not_interfere.

Theorem C11_check_hostname_own_check : forall o ch env host w w',
  tls_plan true o env host = Ok (Wrap w) ->
  tls_plan true (with_check_hostname o ch) env host = Ok (Wrap w') ->
  forget_check_host w' = forget_check_host w.
Proof. exact TlsProof.C11_check_hostname_own_check. Qed.
Print Assumptions C11_check_hostname_own_check.

Theorem C11_ca_options_own_check : forall o ca cp env env' host,
  map_plan forget_ca (tls_plan true (with_ca o ca cp) env' host)
  = map_plan forget_ca (tls_plan true o env host).
Proof. exact TlsProof.C11_ca_options_own_check. Qed.
Print Assumptions C11_ca_options_own_check.

Theorem C11_server_hostname_own_check : forall o sh env host,
  map_plan forget_name (tls_plan true (with_server_hostname o sh) env host)
  = map_plan forget_name (tls_plan true o env host).
Proof. exact TlsProof.C11_server_hostname_own_check. Qed.
Print Assumptions C11_server_hostname_own_check.

Theorem C11_cert_reqs_own_check_partial : forall o cr env host,
  verifying (cert_reqs o) -> verifying cr ->
  map_plan forget_verify (tls_plan true (with_cert_reqs o cr) env host)
  = map_plan forget_verify (tls_plan true o env host).
Proof. exact TlsProof.C11_cert_reqs_own_check_partial. Qed.
Print Assumptions C11_cert_reqs_own_check_partial.

(* KNOWN FINDING: CERT_NONE also switches the host-name check off (CPython couples the two) *)
Theorem C11_cert_reqs_own_check_refuted :
  ~ (forall z host w,
       tls_plan true (with_cert_reqs empty_opt (Some z)) NoBundle host = Ok (Wrap w) ->
       check_host w = true).
Proof. exact TlsProof.C11_cert_reqs_own_check_refuted. Qed.
Print Assumptions C11_cert_reqs_own_check_refuted.

Theorem C11_errors : forall opt env host ex,
  tls_plan true opt env host = Raise ex ->
  ex = ValueErr /\ context opt = false /\
  (cert_reqs opt = Some 0 /\ check_hostname opt = Some true
   \/ exists z, cert_reqs opt = Some z /\ (z < 0 \/ z > 2)).
Proof. exact TlsProof.C11_errors. Qed.
Print Assumptions C11_errors.

(* TLS wrap precedes the handshake write, directly and after a tunnel *)
Theorem C11_wss_first : forall t,
  precedes TlsWrap HandshakeWrite (connect_order true t) /\
  precedes OpenSocket TlsWrap (connect_order true t) /\
  (t = true -> precedes Tunnel TlsWrap (connect_order true t)).
Proof. exact TlsProof.C11_wss_first. Qed.
Print Assumptions C11_wss_first.

Theorem C11_sweep : forall o e, In o all_opts -> In e all_envs -> chk o e = true.
Proof. exact TlsProof.C11_sweep. Qed.
Print Assumptions C11_sweep.
