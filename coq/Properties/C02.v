(* C02 — received frames decode exactly as RFC 6455 prescribes. *)
From Coq Require Import ZArith List.
From WS Require Import Base.Res Base.Bytes Spec.Frame Spec.Stream Model.Xport Model.Recv
  Proofs.FrameCodec Proofs.RecvSpec Proofs.RecvProof.
Import ListNotations.
Open Scope Z_scope.

(* Repeated recv_frame calls on a transport delivering the byte stream [flatten l] (in ANY
   chunking, with ANY timeouts, retried) return, in order, exactly what the independent RFC
   decoder extracts from those bytes — FIN, RSV, opcode, unmasked payload, for the 7/16/64-bit
   length forms, masked or not — each judged by the regenerated validator, every frame parsed
   from its true start, and then the end-of-stream report. *)
Theorem C02_stream : forall skip l,
  script_ok l = true -> no_reset l = true -> bytes_ok (flatten l) ->
  drain (drain_fuel l) skip fb_init (mk_xport l) =
  map (fun r => match r with Ok f => Ok (strip_key f) | Raise e => Raise e end)
      (stream_results (code_verdict skip) (drain_fuel l) (flatten l)).
Proof. exact drain_is_stream. Qed.
Print Assumptions C02_stream.

(* one call, any reachable parser state: the outcome is tied to the decoder's verdict on the
   bytes not yet delivered (see call_post in Proofs/RecvProof.v) *)
Theorem C02_call : forall fuel skip fb x,
  fb_inv fb -> script_ok (inbox x) = true -> bytes_ok (flatten (inbox x)) ->
  (msr (inbox x) < fuel)%nat -> call_post skip fb x (recv_frame fuel skip fb x).
Proof. exact recv_frame_call. Qed.
Print Assumptions C02_call.

(* the decoder inverts the canonical encoder: masked and unmasked, all three length forms *)
Theorem C02_roundtrip_spec : forall f rest, wf_frame f -> decode (encode f ++ rest) = Frame f rest.
Proof. exact decode_encode. Qed.
Print Assumptions C02_roundtrip_spec.

(* both sides are complete runs *)
Theorem C02_total : forall skip l,
  script_ok l = true -> no_reset l = true -> bytes_ok (flatten l) ->
  exists pre, drain (drain_fuel l) skip fb_init (mk_xport l) = pre ++ [Raise ConnClosed].
Proof. exact drain_total. Qed.
Print Assumptions C02_total.

Example C02_ex :
  drain 20 false fb_init (mk_xport [Data [129; 2; 72]; Timeout; Data [105; 137; 0]])
  = [Ok {| wh := {| h_fin := 1; h_rsv1 := 0; h_rsv2 := 0; h_rsv3 := 0; h_opcode := 1 |}; wkey := None; wpayload := [72; 105] |};
     Ok {| wh := {| h_fin := 1; h_rsv1 := 0; h_rsv2 := 0; h_rsv3 := 0; h_opcode := 9 |}; wkey := None; wpayload := [] |};
     Raise ConnClosed].
Proof. vm_compute. reflexivity. Qed.
