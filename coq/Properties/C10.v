(* C10 — the opening handshake request is well-formed and reflects URL and options.
   Statements only (restated verbatim from Proofs/*.v), each closed by [exact]. *)
From Coq Require Import ZArith List Bool Permutation.
From WS Require Import Base.Res Base.Bytes Base.Str Base.B64 Gen.GenHandshake Spec.HttpReq Model.Xport Model.Http Model.Handshake Proofs.HandshakeProof Model.Url Model.Open Model.Connect Proofs.RedirectHops.
Import ListNotations.
Open Scope Z_scope.

(* one syntactically valid GET request ended by an empty line, target = resource *)
Theorem C10_request_wellformed : forall resource scheme host port o fresh_key server_cookie lines key,
  get_handshake_headers resource scheme host port o fresh_key server_cookie = Ok (lines, key) ->
  opts_ok resource host o fresh_key server_cookie ->
  exists hs, parse_request (request_bytes lines) = Some (resource, hs).
Proof. exact HandshakeProof.request_wellformed. Qed.
Print Assumptions C10_request_wellformed.

(* the parsed header list, in order *)
Theorem C10_request_parse : forall resource scheme host port o fresh_key server_cookie lines key,
  get_handshake_headers resource scheme host port o fresh_key server_cookie = Ok (lines, key) ->
  opts_ok resource host o fresh_key server_cookie ->
  parse_request (request_bytes lines)
  = Some (resource, header_hs scheme host port o fresh_key server_cookie).
Proof. exact HandshakeProof.request_parse. Qed.
Print Assumptions C10_request_parse.

(* alias of Proofs/HandshakeProof.v:request_headers_explicit (proved inside a Section or with binders): the closed statement is printed by Check *)
Definition C10_headers_explicit := @HandshakeProof.request_headers_explicit.
Check C10_headers_explicit.
Print Assumptions C10_headers_explicit.

(* exactly one write (the request), then only reads *)
Theorem C10_exactly_one_write : forall x req key subs r x',
  handshake x req key subs = (r, x') ->
  exists tail, iolog x' = iolog x ++ IWrite req :: tail /\
               forall e, In e tail -> exists n, e = IRead n.
Proof. exact HandshakeProof.handshake_writes_once. Qed.
Print Assumptions C10_exactly_one_write.

(* Host = URL host (bracketed if IPv6) with the port unless 80/443 *)
(* alias of Proofs/HandshakeProof.v:host_header_default (proved inside a Section or with binders): the closed statement is printed by Check *)
Definition C10_host_default := @HandshakeProof.host_header_default.
Check C10_host_default.
Print Assumptions C10_host_default.

(* alias of Proofs/HandshakeProof.v:host_header_override (proved inside a Section or with binders): the closed statement is printed by Check *)
Definition C10_host_override := @HandshakeProof.host_header_override.
Check C10_host_override.
Print Assumptions C10_host_override.

(* alias of Proofs/HandshakeProof.v:upgrade_header (proved inside a Section or with binders): the closed statement is printed by Check *)
Definition C10_upgrade := @HandshakeProof.upgrade_header.
Check C10_upgrade.
Print Assumptions C10_upgrade.

(* alias of Proofs/HandshakeProof.v:version_header (proved inside a Section or with binders): the closed statement is printed by Check *)
Definition C10_version := @HandshakeProof.version_header.
Check C10_version.
Print Assumptions C10_version.

(* the key header is the base64 of the 16 random bytes drawn *)
Theorem C10_key : forall resource scheme host port o draw server_cookie lines key target hs,
  get_handshake_headers resource scheme host port o (b64_encode draw) server_cookie = Ok (lines, key) ->
  opts_ok resource host o (b64_encode draw) server_cookie ->
  parse_request (request_bytes lines) = Some (target, hs) ->
  bytes_ok draw -> custom_free o N_KEY -> own_key o = true ->
  header_values N_KEY hs = [b64_encode draw] /\ key = b64_encode draw.
Proof. exact HandshakeProof.key_header_b64. Qed.
Print Assumptions C10_key.

Theorem C10_key_b64 : forall draw, length draw = 16%nat -> bytes_ok draw ->
  length (b64_encode draw) = 24%nat /\ b64_decode (b64_encode draw) = Some draw.
Proof. exact HandshakeProof.key_is_fresh_b64. Qed.
Print Assumptions C10_key_b64.

(* alias of Proofs/HandshakeProof.v:connection_header_default (proved inside a Section or with binders): the closed statement is printed by Check *)
Definition C10_connection_default := @HandshakeProof.connection_header_default.
Check C10_connection_default.
Print Assumptions C10_connection_default.

(* alias of Proofs/HandshakeProof.v:connection_header_override (proved inside a Section or with binders): the closed statement is printed by Check *)
Definition C10_connection_override := @HandshakeProof.connection_header_override.
Check C10_connection_override.
Print Assumptions C10_connection_override.

(* alias of Proofs/HandshakeProof.v:origin_header_suppressed (proved inside a Section or with binders): the closed statement is printed by Check *)
Definition C10_origin_suppressed := @HandshakeProof.origin_header_suppressed.
Check C10_origin_suppressed.
Print Assumptions C10_origin_suppressed.

(* alias of Proofs/HandshakeProof.v:origin_header_given (proved inside a Section or with binders): the closed statement is printed by Check *)
Definition C10_origin_given := @HandshakeProof.origin_header_given.
Check C10_origin_given.
Print Assumptions C10_origin_given.

(* alias of Proofs/HandshakeProof.v:origin_header_default (proved inside a Section or with binders): the closed statement is printed by Check *)
Definition C10_origin_default := @HandshakeProof.origin_header_default.
Check C10_origin_default.
Print Assumptions C10_origin_default.

(* alias of Proofs/HandshakeProof.v:protocol_header_some (proved inside a Section or with binders): the closed statement is printed by Check *)
Definition C10_protocol := @HandshakeProof.protocol_header_some.
Check C10_protocol.
Print Assumptions C10_protocol.

(* alias of Proofs/HandshakeProof.v:protocol_header_none (proved inside a Section or with binders): the closed statement is printed by Check *)
Definition C10_protocol_none := @HandshakeProof.protocol_header_none.
Check C10_protocol_none.
Print Assumptions C10_protocol_none.

(* alias of Proofs/HandshakeProof.v:cookie_header_present (proved inside a Section or with binders): the closed statement is printed by Check *)
Definition C10_cookie := @HandshakeProof.cookie_header_present.
Check C10_cookie.
Print Assumptions C10_cookie.

(* alias of Proofs/HandshakeProof.v:cookie_header_absent (proved inside a Section or with binders): the closed statement is printed by Check *)
Definition C10_cookie_absent := @HandshakeProof.cookie_header_absent.
Check C10_cookie_absent.
Print Assumptions C10_cookie_absent.

(* alias of Proofs/HandshakeProof.v:cookie_header_last (proved inside a Section or with binders): the closed statement is printed by Check *)
Definition C10_cookie_last := @HandshakeProof.cookie_header_last.
Check C10_cookie_last.
Print Assumptions C10_cookie_last.

(* alias of Proofs/HandshakeProof.v:custom_headers_position (proved inside a Section or with binders): the closed statement is printed by Check *)
Definition C10_custom_headers := @HandshakeProof.custom_headers_position.
Check C10_custom_headers.
Print Assumptions C10_custom_headers.

(* alias of Proofs/HandshakeProof.v:custom_dict_headers (proved inside a Section or with binders): the closed statement is printed by Check *)
Definition C10_custom_dict_none_skipped := @HandshakeProof.custom_dict_headers.
Check C10_custom_dict_none_skipped.
Print Assumptions C10_custom_dict_none_skipped.

(* every opening handshake records exactly the request built from its own URL, target, options and the next random draw *)
(* alias of Proofs/RedirectHops.v:do_handshake_records (proved inside a Section or with binders): the closed statement is printed by Check *)
Definition C10_request_recorded := @RedirectHops.do_handshake_records.
Check C10_request_recorded.
Print Assumptions C10_request_recorded.

(* REDIRECTS: the requests of one connect() are the requests of its hops, each built from the hop's own URL (the initial URL, then the Location of each redirect response), one draw per hop *)
Theorem C10_redirect_hops_are_direct : forall url o limit prepared st r st',
  ws_connect url o limit prepared st = (r, st') ->
  exists urls reqs,
    cs_requests st' = cs_requests st ++ reqs /\
    hops o urls (cs_rand st) reqs /\
    (length reqs <= Z.to_nat limit + 1)%nat /\
    match urls with [] => reqs = [] | u :: _ => u = url end.
Proof. exact RedirectHops.redirect_hops_are_direct. Qed.
Print Assumptions C10_redirect_hops_are_direct.

(* the request sent to a redirect target equals the request of a direct connection to that target with the same options and key draw *)
Theorem C10_redirect_target_request_is_direct :
  forall o urlA limitA preparedA stA rA stA' x tg st1 status hs x1 st2 url'
         req0 req1 moreA d0 d1 randA
         limitB preparedB stB rB stB' reqB moreB randB,
  (* A: the first exchange ends in a redirect to url' *)
  open_conn urlA preparedA stA = (Ok (x, tg), st1) ->
  do_handshake urlA tg o x st1 = (Ok (HsRedirect status hs), x1, st2) ->
  alist_get S_LOCATION hs = Some url' ->
  ws_connect urlA o limitA preparedA stA = (rA, stA') ->
  cs_requests stA' = cs_requests stA ++ req0 :: req1 :: moreA ->
  cs_rand stA = d0 :: d1 :: randA ->
  (* B: direct, same options, same draw *)
  ws_connect url' o limitB preparedB stB = (rB, stB') ->
  cs_requests stB' = cs_requests stB ++ reqB :: moreB ->
  cs_rand stB = d1 :: randB ->
  req1 = reqB /\
  exists tg', parse_url url' = Ok tg' /\ hop_request url' tg' o d1 = Some req1.
Proof. exact RedirectHops.single_hop_is_direct. Qed.
Print Assumptions C10_redirect_target_request_is_direct.
