(* C05 — frames the RFC forbids are rejected with a protocol error, never delivered. *)
From Coq Require Import ZArith List.
From WS Require Import Base.Res Base.Bytes Spec.Frame Spec.Legal Model.Recv Model.Conn
  Proofs.RecvSpec Proofs.ConnSpec Proofs.ConnProof.
Import ListNotations.
Open Scope Z_scope.

(* per frame, all 256 first bytes, every payload length, all 65536 close codes, every reason:
   RFC-illegal => the regenerated validator raises the protocol exception *)
Theorem C05_sound : forall f, fields_ok f ->
  frame_verdict true f = Illegal -> code_verdict false f = Raise Protocol.
Proof. exact C05_frame_sound. Qed.
Print Assumptions C05_sound.
(* ... and every frame the RFC allows is accepted *)
Theorem C05_complete : forall f, fields_ok f ->
  frame_verdict true f = Legal -> code_verdict false f = Ok tt.
Proof. exact C05_frame_complete. Qed.
Print Assumptions C05_complete.
Theorem C05_sound_skip : forall f, fields_ok f ->
  frame_verdict false f = Illegal -> code_verdict true f = Raise Protocol.
Proof. exact C05_frame_sound_skip. Qed.
Print Assumptions C05_sound_skip.
Theorem C05_complete_skip : forall f, fields_ok f ->
  frame_verdict false f = Legal -> code_verdict true f = Ok tt.
Proof. exact C05_frame_complete_skip. Qed.
Print Assumptions C05_complete_skip.

(* sequencing, for every reassembly state: a continuation with no message in progress, or a
   new data frame inside an unfinished message, raises the protocol exception, changes no
   state and writes nothing *)
Theorem C05_seq_reject : forall fire skip control conn cf f,
  is_data (a_opcode f) = true -> seq_ok (inprog cf) (wframe_of f) = false ->
  handle_frame fire skip control conn cf f = {| s_cf := cf; s_writes := []; s_out := Fail Protocol |}.
Proof. exact ConnProof.C05_seq_reject. Qed.
Print Assumptions C05_seq_reject.
(* ... and in every reachable state an RFC-allowed data frame is not rejected for sequencing
   (the only possible failure is the UTF-8 verdict on a completed text message) and the
   "message in progress" bit follows the RFC *)
Theorem C05_seq_accept : forall fire skip control conn cf f,
  cf_reachable cf -> is_data (a_opcode f) = true -> seq_ok (inprog cf) (wframe_of f) = true ->
  (forall e, s_out (handle_frame fire skip control conn cf f) = Fail e -> e = Payload) /\
  inprog (s_cf (handle_frame fire skip control conn cf f)) = seq_next (inprog cf) (wframe_of f).
Proof. exact C05_seq_accept_reachable. Qed.
Print Assumptions C05_seq_accept.

Example C05_ex_1005 : code_verdict false
  {| wh := {| h_fin := 1; h_rsv1 := 0; h_rsv2 := 0; h_rsv3 := 0; h_opcode := 8 |}; wkey := None; wpayload := [3; 237] |}
  = Raise Protocol.
Proof. vm_compute. reflexivity. Qed.

From WS Require Import Gen.GenCont Proofs.ContGen.

(* CODE TIE: the sequencing test of the model is the regenerated continuous_frame.validate *)
Theorem C05_sequencing_is_the_code : forall cf f,
  cf_validate cf f = cont_validate (c_recving cf) (a_opcode f).
Proof. exact cf_validate_gen. Qed.
Print Assumptions C05_sequencing_is_the_code.
