(* C16 — keepalive pings detect a silent peer in bounded time and never a responsive one.
   Statements only (restated verbatim from Proofs/*.v), each closed by [exact]. *)
From Coq Require Import ZArith List Bool Permutation.
From WS Require Import Base.Res Base.Bytes Gen.GenApp Model.PingTimer Proofs.PingProof.
Import ListNotations.
Open Scope Z_scope.

(* exactly the inconsistent interval/timeout pairs are refused *)
Theorem C16_args : forall I To,
  ping_args_rejected I To = true <->
  ((exists t, To = Some t /\ t <= 0) \/ I < 0 \/
   (exists t, To = Some t /\ t <> 0 /\ I <> 0 /\ I <= t)).
Proof. exact PingProof.C16_args. Qed.
Print Assumptions C16_args.

(* pings at t0+2I, t0+3I, ... until the run stops, none skipped, none after *)
Theorem C16_periodic : forall t0 I T pf arr horizon,
  0 < T -> T < I ->
  arrivals_sorted t0 arr ->
  let r := keepalive t0 I T pf arr horizon in
  let stop := match fst r with Detected d => d | Quiet => horizon end in
  (* the k-th ping was written at t0 + (k+2) I *)
  (forall (k : nat) x, nth_error (pings (snd r)) k = Some x -> x = t0 + (Z.of_nat k + 2) * I) /\
  (* none is skipped before the run stopped *)
  (forall k : nat, t0 + (Z.of_nat k + 2) * I < stop ->
                   nth_error (pings (snd r)) k = Some (t0 + (Z.of_nat k + 2) * I)) /\
  (* none is written after it stopped *)
  (forall x, In x (pings (snd r)) -> x <= stop).
Proof. exact PingProof.C16_periodic. Qed.
Print Assumptions C16_periodic.

(* a peer answering every ping within the timeout is never reported, whatever other traffic (pong window closed on the side of the tie order) *)
Theorem C16_no_false_alarm : forall t0 I T pf arr horizon,
  0 <= t0 -> 0 < T -> T < I ->
  arrivals_sorted t0 arr ->
  responsive t0 I T pf horizon arr ->
  fst (keepalive t0 I T pf arr horizon) = Quiet.
Proof. exact PingProof.C16_no_false_alarm_partial. Qed.
Print Assumptions C16_no_false_alarm.

Theorem C16_no_false_alarm_strict : forall t0 I T pf arr horizon,
  0 <= t0 -> 0 < T -> T < I ->
  arrivals_sorted t0 arr ->
  (forall k : nat, let p := t0 + (Z.of_nat k + 2) * I in
     p <= horizon -> exists q, In (q, APong) arr /\ p < q <= p + T) ->
  fst (keepalive t0 I T pf arr horizon) = Quiet.
Proof. exact PingProof.C16_no_false_alarm_strict. Qed.
Print Assumptions C16_no_false_alarm_strict.

(* the property's bound holds when ping_interval > 2 * ping_timeout *)
Theorem C16_detect_2T_when_interval_exceeds_twice_timeout : forall t0 I T pf arr horizon (k : nat),
  0 <= t0 -> 0 < T -> 2 * T < I ->
  arrivals_sorted t0 arr ->
  let p := t0 + (Z.of_nat k + 2) * I in
  silent_from p arr ->
  p + 2 * T <= horizon ->
  exists d, fst (keepalive t0 I T pf arr horizon) = Detected d /\ d <= p + 2 * T.
Proof. exact PingProof.C16_detect_2T. Qed.
Print Assumptions C16_detect_2T_when_interval_exceeds_twice_timeout.

Theorem C16_detect_window : forall t0 I T pf arr horizon (k : nat),
  0 <= t0 -> 0 < T -> 2 * T < I ->
  arrivals_sorted t0 arr ->
  let p := t0 + (Z.of_nat k + 2) * I in
  responsive t0 I T pf (p - 1) arr ->
  silent_from p arr ->
  p + 2 * T <= horizon ->
  exists d, fst (keepalive t0 I T pf arr horizon) = Detected d /\ p + T < d <= p + 2 * T.
Proof. exact PingProof.C16_detect_2T_window. Qed.
Print Assumptions C16_detect_window.

(* KNOWN FINDING: for accepted pairs with T < I <= 2T the bound of two timeouts is false *)
Theorem C16_2T_refuted :
  exists I T pf horizon,
    ping_args_rejected I (Some T) = false /\ 0 < T /\ T < I /\
    (let p := 2 * I in
     match fst (keepalive 0 I T pf [] horizon) with
     | Detected d => d > p + 2 * T
     | Quiet => p + 2 * T < horizon
     end).
Proof. exact PingProof.C16_2T_refuted. Qed.
Print Assumptions C16_2T_refuted.

(* ... and with the other tie order the silent peer is never reported *)
Theorem C16_2T_refuted_never :
  exists I T pf horizon,
    ping_args_rejected I (Some T) = false /\ 0 < T /\ T < I /\
    (let p := 2 * I in
     fst (keepalive 0 I T pf [] horizon) = Quiet /\ p + 2 * T < horizon).
Proof. exact PingProof.C16_2T_refuted_never. Qed.
Print Assumptions C16_2T_refuted_never.
