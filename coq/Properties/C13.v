(* C13 — WebSocketApp delivers every event to its callback exactly once, in order.
   Statements only (restated verbatim from Proofs/*.v), each closed by [exact]. *)
From Coq Require Import ZArith List Bool Permutation.
From WS Require Import Base.Res Base.Bytes Spec.Frame Spec.Legal Spec.AppTrace Gen.GenAbnf Model.Recv Model.Conn Model.App Proofs.RecvSpec Proofs.ConnSpec Proofs.ConnProof Proofs.RecvProof Proofs.AppProof Gen.GenApp Proofs.AppGen.
Import ListNotations.
Open Scope Z_scope.

(* on one connection the callbacks are: on_open, then for every item of the RFC-level reading of the frames (whole messages, pings, pongs) its callbacks once each, in arrival order; a raising callback is reported to on_error and delivery continues *)
Theorem C13_trace : forall cfg fs tail more,
  cfg_nice cfg -> Forall abnf_ok fs -> frames_legal (app_skip_utf8 cfg) fs = true -> no_close fs = true ->
  exists rest,
    cbs (snd (run_forever cfg (Established (map AFrame fs ++ tail) :: more))) =
    cb_evs cfg (on_open cfg) TOpen
    ++ expected cfg (good_prefix (app_skip_utf8 cfg) (items None (map wframe_of fs))) ++ rest.
Proof. exact AppProof.C13_trace. Qed.
Print Assumptions C13_trace.

Theorem C13_trace_all : forall cfg fs tail more,
  cfg_nice cfg -> Forall abnf_ok fs -> frames_legal (app_skip_utf8 cfg) fs = true -> no_close fs = true ->
  forallb (fun it => negb (bad_item (app_skip_utf8 cfg) it)) (items None (map wframe_of fs)) = true ->
  exists rest,
    cbs (snd (run_forever cfg (Established (map AFrame fs ++ tail) :: more))) =
    cb_evs cfg (on_open cfg) TOpen ++ expected cfg (items None (map wframe_of fs)) ++ rest.
Proof. exact AppProof.C13_trace_all. Qed.
Print Assumptions C13_trace_all.

(* on_open / on_reconnect is the first callback of every established connection *)
Theorem C13_open_first : forall cfg evs rc s fl s', set_sock cfg (Established evs) rc s = (fl, s') ->
  open_mode cfg rc <> Absent ->
  exists l post, trace s' = trace s ++ l /\ cbs_of l = open_ev cfg rc :: post.
Proof. exact AppProof.C13_open_first. Qed.
Print Assumptions C13_open_first.

Theorem C13_open_first_run : forall cfg evs more, on_open cfg <> Absent ->
  exists post, cbs (snd (run_forever cfg (Established evs :: more))) = TOpen :: post.
Proof. exact AppProof.C13_open_first_run. Qed.
Print Assumptions C13_open_first_run.

(* CODE TIE: the routing of a received frame to on_ping / on_pong / on_data+on_message / teardown is the opcode chain regenerated from read() in run_forever (Gen/GenApp.v); text is decoded exactly when the regenerated test says so *)
Theorem C13_routing_is_the_code : forall cfg op f s,
  deliver cfg op f s =
  if app_is_close op then
    let '(fl, s1) := teardown cfg (Some f) s in (fl, s1, true)
  else if app_is_ping op then
    let '(fl, s1) := callback cfg (on_ping cfg) (TPing (a_data f)) s in (fl, s1, false)
  else if app_is_pong op then
    let '(fl, s1) := callback cfg (on_pong cfg) (TPong (a_data f)) s in (fl, s1, false)
  else if app_is_cont op false then (Normal, s, false)
  else
    let is_text := app_decodes_text op (app_skip_utf8 cfg) in
    match callback cfg (on_data cfg) (TData (a_data f) op true is_text) s with
    | (Kbd, s1) => (Kbd, s1, false)
    | (Normal, s1) =>
      let '(fl, s2) := callback cfg (on_message cfg) (TMessage (a_data f) is_text) s1 in (fl, s2, false)
    end.
Proof. exact AppGen.deliver_gen. Qed.
Print Assumptions C13_routing_is_the_code.

(* promptness, structural part: after every frame returned the parser holds no bytes (fb' = fb_init in call_post), so a complete frame is never left undelivered inside the library while the loop blocks in select *)
(* alias of Proofs/RecvProof.v:recv_frame_call (proved inside a Section or with binders): the closed statement is printed by Check *)
Definition C13_no_hidden_bytes := @RecvProof.recv_frame_call.
Check C13_no_hidden_bytes.
Print Assumptions C13_no_hidden_bytes.
