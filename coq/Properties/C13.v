(* C13 — WebSocketApp delivers every event to its callback exactly once, in order.
   Statements only (restated verbatim from Proofs/*.v), each closed by [exact]. *)
From Coq Require Import ZArith List Bool Permutation.
From WS Require Import Base.Res Base.Bytes Spec.Frame Spec.Legal Spec.AppTrace Gen.GenAbnf Model.Recv Model.Conn Model.App Proofs.RecvSpec Proofs.ConnSpec Proofs.ConnProof Proofs.RecvProof Proofs.AppProof.
Import ListNotations.
Open Scope Z_scope.

(* on one connection the callbacks are: on_open, then for every item of the RFC-level reading of the frames (whole messages, pings, pongs) its callbacks once each, in arrival order; a raising callback is reported to on_error and delivery continues *)
Theorem C13_trace : forall cfg fs tail more,
  cfg_nice cfg -> Forall abnf_ok fs -> frames_legal (app_skip_utf8 cfg) fs = true -> no_close fs = true ->
  exists rest,
    cbs (snd (run_forever cfg (Established (map AFrame fs ++ tail) :: more))) =
    cb_evs cfg (on_open cfg) TOpen
    ++ expected cfg (good_prefix (app_skip_utf8 cfg) (items None (map wframe_of fs))) ++ rest.
Proof. exact AppProof.C13_trace. Qed.
Print Assumptions C13_trace.

Theorem C13_trace_all : forall cfg fs tail more,
  cfg_nice cfg -> Forall abnf_ok fs -> frames_legal (app_skip_utf8 cfg) fs = true -> no_close fs = true ->
  forallb (fun it => negb (bad_item (app_skip_utf8 cfg) it)) (items None (map wframe_of fs)) = true ->
  exists rest,
    cbs (snd (run_forever cfg (Established (map AFrame fs ++ tail) :: more))) =
    cb_evs cfg (on_open cfg) TOpen ++ expected cfg (items None (map wframe_of fs)) ++ rest.
Proof. exact AppProof.C13_trace_all. Qed.
Print Assumptions C13_trace_all.

(* on_open / on_reconnect is the first callback of every established connection *)
Theorem C13_open_first : forall cfg evs rc s fl s', set_sock cfg (Established evs) rc s = (fl, s') ->
  open_mode cfg rc <> Absent ->
  exists l post, trace s' = trace s ++ l /\ cbs_of l = open_ev cfg rc :: post.
Proof. exact AppProof.C13_open_first. Qed.
Print Assumptions C13_open_first.

Theorem C13_open_first_run : forall cfg evs more, on_open cfg <> Absent ->
  exists post, cbs (snd (run_forever cfg (Established evs :: more))) = TOpen :: post.
Proof. exact AppProof.C13_open_first_run. Qed.
Print Assumptions C13_open_first_run.

(* promptness, structural part: after every frame returned the parser holds no bytes (fb' = fb_init in call_post), so a complete frame is never left undelivered inside the library while the loop blocks in select *)
(* alias of Proofs/RecvProof.v:recv_frame_call (proved inside a Section or with binders): the closed statement is printed by Check *)
Definition C13_no_hidden_bytes := @RecvProof.recv_frame_call.
Check C13_no_hidden_bytes.
Print Assumptions C13_no_hidden_bytes.
