(* C04 — fragmented messages are reassembled in order, undisturbed by control frames. *)
From Coq Require Import ZArith List.
From WS Require Import Base.Res Base.Bytes Spec.Frame Spec.Utf8 Spec.Legal Model.Recv Model.Conn
  Proofs.RecvSpec Proofs.ConnSpec Proofs.ConnProof.
Import ListNotations.
Open Scope Z_scope.

(* For EVERY legal frame sequence (any number of fragments incl. empty ones, any number of
   pings/pongs between any two frames, any number of messages) the data results of the
   message-level receive calls are exactly the RFC reassembly: one delivery per message, opcode
   of its first fragment, in-order concatenation, messages in order; a text message is judged
   as a whole (the message clause of C06). *)
Theorem C04_reassembly : forall skip conn fs,
  Forall abnf_ok fs -> frames_legal skip fs = true -> no_close fs = true ->
  filter is_data_obs (run_frames false skip false conn cf_init fs)
  = map (judge_msg skip) (reassemble None (map wframe_of fs)).
Proof. exact ConnProof.C04_reassembly. Qed.
Print Assumptions C04_reassembly.

(* per-fragment delivery: every data frame individually, in order, own payload and FIN *)
Theorem C04_fire : forall skip conn fs,
  Forall abnf_ok fs -> frames_legal skip fs = true -> no_close fs = true ->
  filter is_data_obs (run_frames true skip false conn cf_init fs)
  = map (fun t => let '(op, fin, d) := t in ODeliver op fin d) (per_fragment (map wframe_of fs)).
Proof. exact ConnProof.C04_fire. Qed.
Print Assumptions C04_fire.

Definition fr (fin op : Z) (d : bytes) : abnf :=
  {| a_fin := fin; a_rsv1 := 0; a_rsv2 := 0; a_rsv3 := 0; a_opcode := op; a_mask := 0; a_data := d |}.
Example C04_ex :
  filter is_data_obs (run_frames false false false true cf_init
     [fr 0 1 [72]; fr 1 9 [1]; fr 0 0 []; fr 1 10 []; fr 1 0 [105]; fr 1 2 [0; 255]])
  = [ODeliver 1 1 [72; 105]; ODeliver 2 1 [0; 255]].
Proof. vm_compute. reflexivity. Qed.
