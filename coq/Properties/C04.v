(* C04 — fragmented messages are reassembled in order, undisturbed by control frames. *)
From Coq Require Import ZArith List.
From WS Require Import Base.Res Base.Bytes Spec.Frame Spec.Utf8 Spec.Legal Model.Recv Model.Conn
  Proofs.RecvSpec Proofs.ConnSpec Proofs.ConnProof Base.GenPrelude Spec.Stream Model.Xport Proofs.WsDrainSpec Proofs.WsDrainProof.
Import ListNotations.
Open Scope Z_scope.

(* For EVERY legal frame sequence (any number of fragments incl. empty ones, any number of
   pings/pongs between any two frames, any number of messages) the data results of the
   message-level receive calls are exactly the RFC reassembly: one delivery per message, opcode
   of its first fragment, in-order concatenation, messages in order; a text message is judged
   as a whole (the message clause of C06). *)
Theorem C04_reassembly : forall skip conn fs,
  Forall abnf_ok fs -> frames_legal skip fs = true -> no_close fs = true ->
  filter is_data_obs (run_frames false skip false conn cf_init fs)
  = map (judge_msg skip) (reassemble None (map wframe_of fs)).
Proof. exact ConnProof.C04_reassembly. Qed.
Print Assumptions C04_reassembly.

(* per-fragment delivery: every data frame individually, in order, own payload and FIN *)
Theorem C04_fire : forall skip conn fs,
  Forall abnf_ok fs -> frames_legal skip fs = true -> no_close fs = true ->
  filter is_data_obs (run_frames true skip false conn cf_init fs)
  = map (fun t => let '(op, fin, d) := t in ODeliver op fin d) (per_fragment (map wframe_of fs)).
Proof. exact ConnProof.C04_fire. Qed.
Print Assumptions C04_fire.

Definition fr (fin op : Z) (d : bytes) : abnf :=
  {| a_fin := fin; a_rsv1 := 0; a_rsv2 := 0; a_rsv3 := 0; a_opcode := op; a_mask := 0; a_data := d |}.
Example C04_ex :
  filter is_data_obs (run_frames false false false true cf_init
     [fr 0 1 [72]; fr 1 9 [1]; fr 0 0 []; fr 1 10 []; fr 1 0 [105]; fr 1 2 [0; 255]])
  = [ODeliver 1 1 [72; 105]; ODeliver 2 1 [0; 255]].
Proof. vm_compute. reflexivity. Qed.

(* END TO END on the connection object.  For EVERY script of server events [l] (data segments cut
   anywhere, receive timeouts anywhere, end of stream), calling recv_data_frame until the connection
   is over ([ws_drain], Proofs/WsDrainSpec.v: the caller retries after a timeout) yields exactly
   [feed_results]: the byte stream is decoded by the RFC stream decoder ([stream_results] over
   [flatten l], which does not depend on the segmentation) and the frames are folded by the message
   layer (reassembly, legality, close).  This composes C02/C03 (bytes -> frames) with C04/C05/C06
   (frames -> observations) through the code's own buffers and state. *)
Theorem C04_end_to_end : forall fire skip control l ks,
  script_ok l = true -> no_reset l = true -> bytes_ok (flatten l) -> keys_enough ks l ->
  fst (ws_drain (drain_fuel l) control (ws_init (mk_xport l) ks fire skip)) =
  feed_results fire skip control true cf_init
    (stream_results (code_verdict skip) (drain_fuel l) (flatten l)).
Proof. exact ws_drain_results. Qed.
Print Assumptions C04_end_to_end.

(* sanity: a ping split around a timeout, a text frame, a close frame *)
Example C04_end_to_end_ex :
  fst (ws_drain 20 true (ws_init (mk_xport [Data [137;1]; Timeout; Data [65;129;1;66]; Data [136;0]])
                           [[1;2;3;4];[5;6;7;8];[1;1;1;1];[2;2;2;2];[3;3;3;3];[4;4;4;4];[5;5;5;5];[6;6;6;6];[7;7;7;7];[8;8;8;8]] false false))
  = [ODeliver 9 1 [65]; ODeliver 1 1 [66]; ODeliver 8 1 []; OFail ConnClosed].
Proof. vm_compute. reflexivity. Qed.

From WS Require Import Gen.GenCont Proofs.ContGen.

(* CODE TIE for the message layer: the reassembly state machine used in every theorem above equals,
   decision by decision, what is regenerated on every run from continuous_frame.validate / add /
   is_fire / extract and from the opcode dispatch of WebSocket.recv_data_frame (Gen/GenCont.v; the
   statement skeletons around the decisions are checked by the translator, fail-closed). *)
Theorem C04_dispatch_is_the_code : forall fire skip control conn cf f,
  handle_frame fire skip control conn cf f =
  let op := a_opcode f in
  if rdf_is_data op then
    match cont_validate (c_recving cf) op with
    | Raise e => {| s_cf := cf; s_writes := []; s_out := Fail e |}
    | Ok _ =>
      let cf2 := cf_add cf f in
      if cont_is_fire (a_fin f) fire then
        match cf_extract fire skip cf2 f with
        | (Ok (op0, f'), cf3) => {| s_cf := cf3; s_writes := []; s_out := Return op0 f' |}
        | (Raise e, cf3) => {| s_cf := cf3; s_writes := []; s_out := Fail e |}
        end
      else {| s_cf := cf2; s_writes := []; s_out := Again |}
    end
  else if rdf_is_close op then
    {| s_cf := cf; s_writes := if conn then [WClose] else []; s_out := Return op f |}
  else if rdf_is_ping op then
    if rdf_ping_reply_ok (a_data f) then
      {| s_cf := cf; s_writes := [WPong (a_data f)]; s_out := if control then Return op f else Again |}
    else {| s_cf := cf; s_writes := []; s_out := Fail Protocol |}
  else if rdf_is_pong op then
    {| s_cf := cf; s_writes := []; s_out := if control then Return op f else Again |}
  else {| s_cf := cf; s_writes := []; s_out := Again |}.
Proof. exact handle_frame_dispatch. Qed.
Print Assumptions C04_dispatch_is_the_code.

Theorem C04_add_is_the_code : forall cf f,
  cf_add cf f =
  let cf1 := match c_data cf with
             | Some (op0, d) => {| c_data := Some (op0, d ++ a_data f); c_recving := c_recving cf |}
             | None => {| c_data := Some (a_opcode f, a_data f);
                          c_recving := if cont_add_sets_recving (a_opcode f) then a_opcode f else c_recving cf |}
             end in
  if cont_add_clears_recving (a_fin f) then {| c_data := c_data cf1; c_recving := 0 |} else cf1.
Proof. exact cf_add_gen. Qed.
Print Assumptions C04_add_is_the_code.

Theorem C04_extract_is_the_code : forall fire skip cf f,
  cf_extract fire skip cf f =
  match c_data cf with
  | None => (Raise (Internal TypeErr), cf)
  | Some (op0, d) =>
    let cf' := {| c_data := None; c_recving := c_recving cf |} in
    if cont_extract_rejects fire skip op0 d then (Raise Payload, cf') else (Ok (op0, with_data f d), cf')
  end.
Proof. exact cf_extract_gen. Qed.
Print Assumptions C04_extract_is_the_code.
