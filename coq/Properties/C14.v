(* C14 — run_forever always terminates; on_close fires once, last, with the close reason.
   Statements only (restated verbatim from Proofs/*.v), each closed by [exact]. *)
From Coq Require Import ZArith List Bool Permutation.
From WS Require Import Base.Res Base.Bytes Spec.Frame Spec.Legal Spec.AppTrace Gen.GenAbnf Gen.GenApp Model.Recv Model.Conn Model.App Proofs.RecvSpec Proofs.ConnSpec Proofs.ConnProof Proofs.AppProof Proofs.AppGen.
Import ListNotations.
Open Scope Z_scope.

(* for EVERY configuration (raising, closing, interrupting callbacks) and EVERY environment: exactly one on_close *)
Theorem C14_close_once : forall cfg env, on_close cfg <> Absent ->
  count_close (trace (snd (run_forever cfg env))) = 1%nat.
Proof. exact AppProof.C14_close_once. Qed.
Print Assumptions C14_close_once.

Theorem C14_close_absent : forall cfg env, on_close cfg = Absent ->
  count_close (trace (snd (run_forever cfg env))) = 0%nat.
Proof. exact AppProof.C14_close_absent. Qed.
Print Assumptions C14_close_absent.

(* ... and it is the last callback *)
Theorem C14_close_last : forall cfg env, on_close cfg = Ret ->
  exists pre c r, cbs (snd (run_forever cfg env)) = pre ++ [TClose c r] /\ no_close_ev pre.
Proof. exact AppProof.C14_close_last. Qed.
Print Assumptions C14_close_last.

Theorem C14_close_last_gen : forall cfg env, on_close cfg <> Absent -> td_normal cfg ->
  exists pre c r, cbs (snd (run_forever cfg env)) = pre ++ [TClose c r] ++ close_tail cfg /\ no_close_ev pre.
Proof. exact AppProof.C14_close_last_gen. Qed.
Print Assumptions C14_close_last_gen.

(* in general only error reports can follow on_close (when on_close itself raises) *)
Theorem C14_close_last_any : forall cfg env, on_close cfg <> Absent ->
  exists pre c r post,
    cbs (snd (run_forever cfg env)) = pre ++ [TClose c r] ++ close_tail cfg ++ post /\
    no_close_ev pre /\ forallb is_error_ev post = true.
Proof. exact AppProof.C14_close_last_any. Qed.
Print Assumptions C14_close_last_any.

(* KNOWN FINDING: KeyboardInterrupt raised inside on_close is reported to on_error after on_close *)
Theorem C14_close_last_interrupt_example :
  cbs (snd (run_forever (with_on_close (cfg_all Ret 0 false) RaiseKbd) [Established [AFrame (close_frame [])]]))
  = [TOpen; TClose None None; TError EKbd].
Proof. exact AppProof.C14_close_last_interrupt_example. Qed.
Print Assumptions C14_close_last_interrupt_example.

(* on_close gets (None, None) or the code and reason of a close frame the server sent *)
Theorem C14_args : forall cfg env c r, In (TClose c r) (trace (snd (run_forever cfg env))) ->
  (c = None /\ r = None) \/
  exists f, frame_in env f /\ a_opcode f = 8 /\ (c, r) = close_info (a_data f).
Proof. exact AppProof.C14_args. Qed.
Print Assumptions C14_args.

Theorem C14_args_server_close_code : forall cfg fs closef junk b0 b1 reason,
  cfg_nice cfg -> on_close cfg = Ret -> accepted (app_skip_utf8 cfg) fs -> a_opcode closef = 8 ->
  a_data closef = b0 :: b1 :: reason ->
  exists pre, trace (snd (run_forever cfg [Established (map AFrame fs ++ AFrame closef :: junk)]))
              = pre ++ [TClose (Some (256 * b0 + b1)) (Some reason)].
Proof. exact AppProof.C14_args_server_close_code. Qed.
Print Assumptions C14_args_server_close_code.

Theorem C14_args_server_close_empty : forall cfg fs closef junk,
  cfg_nice cfg -> on_close cfg = Ret -> accepted (app_skip_utf8 cfg) fs -> a_opcode closef = 8 ->
  a_data closef = [] ->
  exists pre, trace (snd (run_forever cfg [Established (map AFrame fs ++ AFrame closef :: junk)]))
              = pre ++ [TClose None None].
Proof. exact AppProof.C14_args_server_close_empty. Qed.
Print Assumptions C14_args_server_close_empty.

(* return value False for a run ended by a close frame *)
Theorem C14_ret_false_server_close : forall cfg fs closef junk,
  cfg_nice cfg -> accepted (app_skip_utf8 cfg) fs -> a_opcode closef = 8 ->
  fst (run_forever cfg [Established (map AFrame fs ++ AFrame closef :: junk)]) = false.
Proof. exact AppProof.C14_ret_false_server_close. Qed.
Print Assumptions C14_ret_false_server_close.

(* ... or by the application's own close() *)
Theorem C14_ret_false_own_close : forall cfg evs rest,
  on_open cfg = CallClose -> nice (on_close cfg) -> nice (on_error cfg) ->
  run_forever cfg (Established evs :: rest) =
  (false, Build_appst false false false false false true cf_init
            ([TConnect; TOpen; TCloseFrameSent; TSockClosed] ++ closing_evs cfg None)).
Proof. exact AppProof.C14_ret_false_own_close. Qed.
Print Assumptions C14_ret_false_own_close.

Theorem C14_ret_false_clean : forall cfg evs, no_kbd cfg -> forallb is_quiet evs = true ->
  snd (fst (feed (app_skip_utf8 cfg) cf_init (frames_of evs))) = None ->
  let r := run_forever cfg [Established evs] in
  fst r = false /\ forall e, In (TError e) (trace (snd r)) -> e = ECallback.
Proof. exact AppProof.C14_ret_false_clean. Qed.
Print Assumptions C14_ret_false_clean.

(* True (and an error report) for a lost connection / protocol error *)
Theorem C14_ret_true_on_loss : forall cfg fs e junk,
  cfg_nice cfg -> accepted (app_skip_utf8 cfg) fs ->
  let r := run_forever cfg [Established (map AFrame fs ++ ABad e :: junk)] in
  fst r = true /\ (on_error cfg = Ret -> In (TError (EExn e)) (trace (snd r))).
Proof. exact AppProof.C14_ret_true_on_loss. Qed.
Print Assumptions C14_ret_true_on_loss.

Theorem C14_ret_true_ping_timeout : forall cfg fs junk,
  cfg_nice cfg -> accepted (app_skip_utf8 cfg) fs ->
  let r := run_forever cfg [Established (map AFrame fs ++ APingTimeout :: junk)] in
  fst r = true /\ (on_error cfg = Ret -> In (TError (EExn TimedOut)) (trace (snd r))).
Proof. exact AppProof.C14_ret_true_ping_timeout. Qed.
Print Assumptions C14_ret_true_ping_timeout.

Theorem C14_ret_true_refused : forall cfg, cfg_nice cfg ->
  let r := run_forever cfg [Refused] in
  fst r = true /\ (on_error cfg = Ret -> In (TError ERefused) (trace (snd r))).
Proof. exact AppProof.C14_ret_true_refused. Qed.
Print Assumptions C14_ret_true_refused.

Theorem C14_ret_true_rejected : forall cfg st, cfg_nice cfg ->
  let r := run_forever cfg [Rejected st] in
  fst r = true /\ (on_error cfg = Ret -> In (TError (EExn (BadStatus st))) (trace (snd r))).
Proof. exact AppProof.C14_ret_true_rejected. Qed.
Print Assumptions C14_ret_true_rejected.

(* a True return value always comes with an error report *)
Theorem C14_ret_true_reported : forall cfg env, no_silence env ->
  fst (run_forever cfg env) = true -> on_error cfg = Ret ->
  exists e, e <> ECallback /\ In (TError e) (trace (snd (run_forever cfg env))).
Proof. exact AppProof.C14_ret_true_reported_partial. Qed.
Print Assumptions C14_ret_true_reported.

Theorem C14_ret_false_unreported : forall cfg env, no_silence env ->
  fst (run_forever cfg env) = false ->
  forall e, In (TError e) (trace (snd (run_forever cfg env))) -> e = ECallback.
Proof. exact AppProof.C14_ret_false_unreported. Qed.
Print Assumptions C14_ret_false_unreported.

(* whatever happened: no socket, transport released, loop stopped, torn down *)
Theorem C14_clean : forall cfg env, let s := snd (run_forever cfg env) in
  has_sock s = false /\ sock_open s = false /\ keep_running s = false /\ torn_down s = true.
Proof. exact AppProof.C14_clean. Qed.
Print Assumptions C14_clean.

(* CODE TIE: the arguments of on_close are the decisions and values regenerated from WebSocketApp._get_close_args (the reason as raw bytes; CPython's decode(errors='replace') of them is outside the model) *)
Theorem C14_close_args_are_the_code : forall cfg frame,
  close_args cfg frame =
  if close_args_none (cb_set (on_close cfg)) (match frame with Some _ => true | None => false end)
  then (None, None)
  else match frame with
       | None => (None, None)
       | Some f => if close_args_has_code (a_data f)
                   then (Some (close_args_code (a_data f)), Some (close_args_reason (a_data f)))
                   else (None, None)
       end.
Proof. exact AppGen.close_args_gen. Qed.
Print Assumptions C14_close_args_are_the_code.
