(* C17 — arbitrary server bytes produce only documented exceptions, never hangs, never
   unbounded read requests. *)
From Coq Require Import ZArith List.
From WS Require Import Base.Res Base.Bytes Spec.Frame Model.Xport Model.Recv Model.Http Model.Handshake
  Proofs.RecvSpec Proofs.RecvProof Proofs.HandshakeProof.
Import ListNotations.
Open Scope Z_scope.

(* Frame phase, EVERY byte stream in every chunking: a receive call ends in exactly one of: a frame,
   the protocol exception, a timeout, connection closed, or the transport's own error (only if the
   script contains a reset) — [call_post] has [Raise _ => False] for every other exception class,
   in particular for every Internal one. *)
Theorem C17_frame_documented : forall fuel skip fb x,
  fb_inv fb -> script_ok (inbox x) = true -> bytes_ok (flatten (inbox x)) ->
  (msr (inbox x) < fuel)%nat -> call_post skip fb x (recv_frame fuel skip fb x).
Proof. exact recv_frame_call. Qed.
Print Assumptions C17_frame_documented.

(* it never spins: one unit of fuel per byte or event is never exhausted *)
Theorem C17_frame_progress : forall skip fb x r fb' x',
  recv_frame (fuel_for (inbox x)) skip fb x = (r, fb', x') -> script_ok (inbox x) = true ->
  r <> Raise OutOfFuel.
Proof. exact recv_frame_never_out_of_fuel. Qed.
Print Assumptions C17_frame_progress.

(* and it never asks the transport for more than 16384 bytes, whatever length the peer declared *)
Theorem C17_frame_bounded_request : forall fuel skip fb x r fb' x',
  recv_frame fuel skip fb x = (r, fb', x') ->
  forall n, In (IRead n) (iolog x') -> In (IRead n) (iolog x) \/ n <= 16384.
Proof. exact read_sizes_bounded. Qed.
Print Assumptions C17_frame_bounded_request.

(* handshake phase: header bytes are read one at a time and the error body with a bounded request *)
Theorem C17_handshake_bounded_request : forall x req key subs r x',
  handshake x req key subs = (r, x') ->
  forall n, In (IRead n) (iolog x') -> In (IRead n) (iolog x) \/ n <= 16384.
Proof. exact handshake_reads_bounded. Qed.
Print Assumptions C17_handshake_bounded_request.

(* The handshake reader is a total function with explicit fuel (read_headers_loop / recv_line: one unit
   per byte or event), so it cannot spin either; that the REAL code raises no exception class outside
   the model's alphabet is what the correspondence run of ./check C17 establishes (a theorem cannot see
   an exception the model has no constructor for). *)
Example C17_ex_huge_declared_length :
  let x := {| inbox := [Data [130; 127; 127; 255; 255; 255; 255; 255; 255; 255]]; iolog := [] |} in
  let '(r, _, x') := recv_frame 100 false fb_init x in
  r = Raise ConnClosed /\ iolog x' = [IRead 2; IRead 8; IRead 16384].
Proof. vm_compute. split; reflexivity. Qed.
