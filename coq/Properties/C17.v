(* C17 — arbitrary server bytes produce only documented exceptions, never hangs, never
   unbounded read requests. *)
From Coq Require Import ZArith List.
From WS Require Import Base.Res Base.Bytes Spec.Frame Model.Xport Model.Recv Model.Http Model.Handshake
  Proofs.RecvSpec Proofs.RecvProof Proofs.HandshakeProof.
Import ListNotations.
Open Scope Z_scope.

(* Frame phase, EVERY byte stream in every chunking: a receive call ends in exactly one of: a frame,
   the protocol exception, a timeout, connection closed, or the transport's own error (only if the
   script contains a reset) — [call_post] has [Raise _ => False] for every other exception class,
   in particular for every Internal one. *)
Theorem C17_frame_documented : forall fuel skip fb x,
  fb_inv fb -> script_ok (inbox x) = true -> bytes_ok (flatten (inbox x)) ->
  (msr (inbox x) < fuel)%nat -> call_post skip fb x (recv_frame fuel skip fb x).
Proof. exact recv_frame_call. Qed.
Print Assumptions C17_frame_documented.

(* it never spins: one unit of fuel per byte or event is never exhausted *)
Theorem C17_frame_progress : forall skip fb x r fb' x',
  recv_frame (fuel_for (inbox x)) skip fb x = (r, fb', x') -> script_ok (inbox x) = true ->
  r <> Raise OutOfFuel.
Proof. exact recv_frame_never_out_of_fuel. Qed.
Print Assumptions C17_frame_progress.

(* and it never asks the transport for more than 16384 bytes, whatever length the peer declared *)
Theorem C17_frame_bounded_request : forall fuel skip fb x r fb' x',
  recv_frame fuel skip fb x = (r, fb', x') ->
  forall n, In (IRead n) (iolog x') -> In (IRead n) (iolog x) \/ n <= 16384.
Proof. exact read_sizes_bounded. Qed.
Print Assumptions C17_frame_bounded_request.

(* handshake phase: header bytes are read one at a time and the error body with a bounded request *)
Theorem C17_handshake_bounded_request : forall x req key subs r x',
  handshake x req key subs = (r, x') ->
  forall n, In (IRead n) (iolog x') -> In (IRead n) (iolog x) \/ n <= 16384.
Proof. exact handshake_reads_bounded. Qed.
Print Assumptions C17_handshake_bounded_request.

(* The handshake reader is a total function with explicit fuel (read_headers_loop / recv_line: one unit
   per byte or event), so it cannot spin either; that the REAL code raises no exception class outside
   the model's alphabet is what the correspondence run of ./check C17 establishes (a theorem cannot see
   an exception the model has no constructor for). *)
Example C17_ex_huge_declared_length :
  let x := {| inbox := [Data [130; 127; 127; 255; 255; 255; 255; 255; 255; 255]]; iolog := [] |} in
  let '(r, _, x') := recv_frame 100 false fb_init x in
  r = Raise ConnClosed /\ iolog x' = [IRead 2; IRead 8; IRead 16384].
Proof. vm_compute. split; reflexivity. Qed.

From WS Require Import Base.Str Model.Url Model.Open Model.Connect Proofs.HandshakeExn.

(* Handshake phase, exception alphabet.  For EVERY scripted server (ASCII bytes, any chunking, timeouts,
   resets, end of stream anywhere) the opening handshake raises only documented exceptions -- never an
   Internal (TypeError/IndexError/KeyError/UnicodeError...) one -- and never runs out of fuel (no spinning). *)
Theorem C17_read_headers_documented : forall x e x',
  script_ok (inbox x) = true -> ascii_stream (inbox x) ->
  read_headers x = (Raise e, x') -> documented e.
Proof. exact read_headers_documented. Qed.
Print Assumptions C17_read_headers_documented.

Theorem C17_handshake_documented : forall x req key subs e x',
  script_ok (inbox x) = true -> ascii_stream (inbox x) ->
  handshake x req key subs = (Raise e, x') -> documented e.
Proof. exact handshake_documented. Qed.
Print Assumptions C17_handshake_documented.

Theorem C17_handshake_no_spin : forall x req key subs r x',
  script_ok (inbox x) = true -> handshake x req key subs = (r, x') -> r <> Raise OutOfFuel.
Proof. exact handshake_no_spin. Qed.
Print Assumptions C17_handshake_no_spin.

(* the whole of connect(): URL parsing, socket opening, every redirect hop, every handshake *)
Theorem C17_connect_documented : forall url o limit prepared st e st',
  (forall x, prepared = Some x -> script_good (inbox x)) ->
  Forall (fun c => script_good (n_script c)) (cs_net st) ->
  (Z.to_nat limit + 1 <= length (cs_rand st))%nat ->
  key_header_ok o ->
  ws_connect url o limit prepared st = (Raise e, st') -> documented e.
Proof. exact ws_connect_documented. Qed.
Print Assumptions C17_connect_documented.

Theorem C17_connect_no_spin : forall url o limit prepared st r st',
  (Z.to_nat limit + 1 <= length (cs_rand st))%nat ->
  key_header_ok o ->
  ws_connect url o limit prepared st = (r, st') -> r <> Raise OutOfFuel.
Proof. exact ws_connect_no_spin. Qed.
Print Assumptions C17_connect_no_spin.

(* the ASCII hypothesis cannot be dropped from the model-level statement: a valid-UTF-8 non-ASCII header
   line is outside the model's domain (Python's Unicode strip()/lower()), marked Internal; the check
   judges those inputs on the implementation directly *)
Example C17_domain_edge : fst (read_headers (mk_xport [Data [195;169;10]])) = Raise (Internal TypeErr).
Proof. exact non_ascii_line_is_internal. Qed.

(* A server can never cause a ValueError: that exception only reports the caller's own invalid URL (a redirect to an invalid
   location raises the library's own exception, before the current transport is closed). *)
Theorem C17_ValueError_only_from_own_url : forall url o limit prepared st e st',
  ws_connect url o limit prepared st = (Raise e, st') -> e = ValueErr -> exists e0, parse_url url = Raise e0.
Proof. exact ws_connect_ValueErr_only_from_own_url. Qed.
Print Assumptions C17_ValueError_only_from_own_url.

Theorem C17_connect_documented_srv : forall url o limit prepared st e st',
  (forall x, prepared = Some x -> script_good (inbox x)) ->
  Forall (fun c => script_good (n_script c)) (cs_net st) ->
  (Z.to_nat limit + 1 <= length (cs_rand st))%nat ->
  key_header_ok o ->
  (exists t, parse_url url = Ok t) ->
  ws_connect url o limit prepared st = (Raise e, st') -> documented_srv e.
Proof. exact ws_connect_documented_srv. Qed.
Print Assumptions C17_connect_documented_srv.

From WS Require Import Base.GenPrelude Gen.GenAbnf Gen.GenCore Model.Send Model.Conn Model.Script Proofs.RecvApi.

(* recv() adds no exception of its own to those of recv_data_frame (no UnicodeDecodeError even with validation off) *)
Theorem C17_recv_adds_no_exception : forall w e w',
  ws_recv w = (RExn e, w') -> ws_recv_data_frame (rdf_fuel w) false w = (Raise e, w').
Proof. exact ws_recv_raises_only_what_recv_data_frame_raises. Qed.
Print Assumptions C17_recv_adds_no_exception.

