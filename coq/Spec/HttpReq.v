(* What a well-formed HTTP/1.1 upgrade request looks like (RFC 9112 section 2-3, RFC 6455 section 4.1)
   and what a valid upgrade response is (RFC 6455 section 4.2.2).  Independent of the code. *)
From Coq Require Import ZArith List Bool.
From WS Require Import Base.Bytes Base.Str Base.B64 Base.Sha1.
Import ListNotations.
Open Scope Z_scope.

(* split a byte string at every CRLF *)
Fixpoint split_crlf_aux (l : bytes) (cur : bytes) : list bytes :=
  match l with
  | [] => [rev cur]
  | 13 :: 10 :: r => rev cur :: split_crlf_aux r []
  | c :: r => split_crlf_aux r (c :: cur)
  end.
Definition split_crlf (l : bytes) : list bytes := split_crlf_aux l [].

Definition no_crlf (s : str) : bool := negb (contains_char 13 s) && negb (contains_char 10 s).

(* header-name characters (RFC 9110 token) *)
Definition tchar (c : Z) : bool :=
  ((48 <=? c) && (c <=? 57)) || ((65 <=? c) && (c <=? 90)) || ((97 <=? c) && (c <=? 122)) ||
  existsb (Z.eqb c) [33; 35; 36; 37; 38; 39; 42; 43; 45; 46; 94; 95; 96; 124; 126].
Definition is_token (s : str) : bool := negb (Nat.eqb (length s) 0) && forallb tchar s.

(* "name: value" -> (name, value) ; the value is everything after the first colon, leading/trailing blanks removed *)
Definition parse_header_line (l : str) : option (str * str) :=
  match split_once 58 l with
  | Some (n, v) => if is_token n then Some (n, strip v) else None
  | None => None
  end.

Fixpoint parse_header_lines (ls : list str) : option (list (str * str)) :=
  match ls with
  | [] => Some []
  | l :: r => match parse_header_line l, parse_header_lines r with
              | Some h, Some t => Some (h :: t)
              | _, _ => None
              end
  end.

(* a request: "GET <target> HTTP/1.1" CRLF (header CRLF)* CRLF and nothing after *)
Definition S_GET_ := [71; 69; 84].
Definition S_HTTP11_ := [72; 84; 84; 80; 47; 49; 46; 49].
Definition parse_request (b : bytes) : option (str * list (str * str)) :=
  match split_crlf b with
  | reqline :: rest =>
    match split_all 32 reqline with
    | [m; target; v] =>
      if str_eqb m S_GET_ && str_eqb v S_HTTP11_ && negb (Nat.eqb (length target) 0) then
        (* rest = headers ++ [""; ""] : the empty line and the (empty) body *)
        match rev rest with
        | [] :: [] :: hrev =>
          if forallb (fun l => negb (Nat.eqb (length l) 0)) hrev then
            match parse_header_lines (rev hrev) with Some hs => Some (target, hs) | None => None end
          else None
        | _ => None
        end
      else None
    | _ => None
    end
  | [] => None
  end.

(* all values of a header name (case-insensitive) *)
Definition header_values (name : str) (hs : list (str * str)) : list str :=
  map snd (filter (fun kv => str_eqb (lower (fst kv)) (lower name)) hs).

(* Host header for a target (RFC 9110 7.2; port omitted when it is the scheme default 80/443) *)
Definition bracket_if_ipv6 (h : str) : str := if contains_char 58 h then [91] ++ h ++ [93] else h.
Definition host_header (host : str) (port : Z) : str :=
  if (port =? 80) || (port =? 443) then bracket_if_ipv6 host else bracket_if_ipv6 host ++ [58] ++ str_of_Z port.

(* ---- the upgrade response (RFC 6455 4.2.2) ---- *)
Definition tokens (v : str) : list str := map (fun t => lower (strip t)) (split_all 44 v).
Definition GUID_ : str :=
  [50; 53; 56; 69; 65; 70; 65; 53; 45; 69; 57; 49; 52; 45; 52; 55; 68; 65; 45; 57; 53; 67; 65; 45; 67; 53; 65; 66; 48; 68; 67; 56; 53; 66; 49; 49].
Definition expected_accept (key : str) : str := b64_encode (sha1 (key ++ GUID_)).
Definition S_websocket := [119; 101; 98; 115; 111; 99; 107; 101; 116].
Definition S_upgrade := [117; 112; 103; 114; 97; 100; 101].
Definition S_connection := [99; 111; 110; 110; 101; 99; 116; 105; 111; 110].
Definition S_sec_accept := [115; 101; 99; 45; 119; 101; 98; 115; 111; 99; 107; 101; 116; 45; 97; 99; 99; 101; 112; 116].
Definition S_sec_proto := [115; 101; 99; 45; 119; 101; 98; 115; 111; 99; 107; 101; 116; 45; 112; 114; 111; 116; 111; 99; 111; 108].

(* [hs] : response headers with lower-cased names, last value per name (a dict) *)
Definition response_accepts (status : Z) (hs : list (str * str)) (key : str) (offered : list str) : bool :=
  (status =? 101)
  && match alist_get S_upgrade hs with Some v => mem_str S_websocket (tokens v) | None => false end
  && match alist_get S_connection hs with Some v => mem_str S_upgrade (tokens v) | None => false end
  && match alist_get S_sec_accept hs with Some v => str_eqb v (expected_accept key) | None => false end
  && match offered with
     | [] => true
     | _ => match alist_get S_sec_proto hs with
            | Some v => mem_str (lower v) (map lower offered)
            | None => false
            end
     end.
