(* C20 specification, written from the property text (does not mention the jar's representation):

     "Cookies received in a handshake response are kept only when the response names a Domain for
      them, and are afterwards sent only in handshakes to that domain or its subdomains (matched
      case-insensitively on a label boundary), never to any other host.  For every history of
      responses and targets the Cookie header sent is exactly the name-sorted cookies whose domain
      covers the target, latest value winning, followed by the cookie supplied by the caller."

   Reading fixed here (and checked against the real code by harness/corr/cookie_validate.py):
   - a response is the list of its (name, value, Domain attribute) triples; an absent or empty
     Domain attribute names no domain;
   - every (name, value) of a response is stored under EACH domain named by a triple of that
     response (one Domain per response in the property's quantifier; the code does the same for
     several);
   - two Domain attributes denote the same domain when they agree after lower-casing and dropping
     one leading dot; per (domain, name) the latest stored value wins;
   - the cookies sent to a host are the live stored cookies whose domain covers the host; a name
     stored under two covering domains (ex.com and sub.ex.com for host sub.ex.com) is sent once per
     domain;
   - order: the "name=value" strings sorted by code point.  CAVEAT: this equals sorting by name
     when no name is a proper prefix of another name (with names a, ab the strings "a=1" < "ab=1"
     agree with a < ab because "=" (61) is below the letters and digits; they disagree when the
     longer name continues with a character below "=", e.g. names "a" and "a+": "a+=1" < "a=1");
   - then the caller's cookie (if non-empty), everything joined by "; ", and no header at all when
     there is nothing to send. *)
From Coq Require Import ZArith List Bool.
From WS Require Import Base.Bytes Base.Str.
Import ListNotations.
Open Scope Z_scope.

Definition response := list (str * str * option str).   (* name, value, Domain attribute *)

(* ---- domains ---- *)
(* lower-case, without one leading dot *)
Definition dom_norm (d : str) : str :=
  match lower d with
  | c :: r => if c =? 46 then r else c :: r
  | [] => []
  end.

Definition same_domain (d1 d2 : str) : bool := str_eqb (dom_norm d1) (dom_norm d2).

(* host is the domain or a subdomain of it: case-insensitive, on a label boundary *)
Definition covers (d host : str) : bool :=
  let d' := dom_norm d in
  str_eqb (lower host) d' || ends_with (46 :: d') (lower host).

(* ---- what a history of responses stores ---- *)
Definition stored := (str * str * str)%type.    (* domain as written in the response, name, value *)
Definition st_dom (s : stored) : str := fst (fst s).
Definition st_name (s : stored) : str := snd (fst s).
Definition st_value (s : stored) : str := snd s.

Definition named_domain (m : str * str * option str) : option str :=
  match snd m with Some (c :: d) => Some (c :: d) | _ => None end.

(* every (name, value) of the response under each domain the response names *)
Definition stored_by (r : response) : list stored :=
  flat_map (fun m => match named_domain m with
                     | Some d => map (fun m' => (d, fst (fst m'), snd (fst m'))) r
                     | None => []
                     end) r.

(* chronological *)
Definition stored_all (history : list response) : list stored := flat_map stored_by history.

Definition same_slot (a b : stored) : bool :=
  same_domain (st_dom a) (st_dom b) && str_eqb (st_name a) (st_name b).

(* latest value wins: a stored cookie is live when nothing stored later has the same domain and name *)
Fixpoint live (l : list stored) : list stored :=
  match l with
  | [] => []
  | s :: r => if existsb (same_slot s) r then live r else s :: live r
  end.

(* the cookies to send to a host *)
Definition sent (history : list response) (host : str) : list stored :=
  filter (fun s => covers (st_dom s) host) (live (stored_all history)).

(* ---- order ---- *)
Fixpoint str_compare (a b : str) : comparison :=
  match a, b with
  | [], [] => Eq
  | [], _ :: _ => Lt
  | _ :: _, [] => Gt
  | x :: a', y :: b' => match x ?= y with Eq => str_compare a' b' | c => c end
  end.
Definition str_le (a b : str) : bool := match str_compare a b with Gt => false | _ => true end.

Fixpoint insert_sorted (x : str) (l : list str) : list str :=
  match l with [] => [x] | y :: r => if str_le x y then x :: l else y :: insert_sorted x r end.
Fixpoint sorted (l : list str) : list str :=
  match l with [] => [] | x :: r => insert_sorted x (sorted r) end.

(* ---- the header ---- *)
Definition name_eq_value (s : stored) : str := st_name s ++ [61] ++ st_value s.

Definition spec_header (history : list response) (host : str) (client_cookie : option str)
  : option str :=
  let server := sorted (map name_eq_value (sent history host)) in
  let client := match client_cookie with Some (c :: s) => [c :: s] | _ => [] end in
  match server ++ client with
  | [] => None
  | parts => Some (join [59; 32] parts)
  end.
