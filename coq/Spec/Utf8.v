(* Well-formed UTF-8 byte sequences, transcribed from The Unicode Standard,
   Table 3-7 ("Well-Formed UTF-8 Byte Sequences").  Independent of the code. *)
From Coq Require Import ZArith List Bool.
From WS Require Import Base.Bytes.
Import ListNotations.
Open Scope Z_scope.

Definition inr (lo hi b : Z) : bool := (lo <=? b) && (b <=? hi).
Definition cont (b : Z) : bool := inr 128 191 b.       (* 80..BF *)

Fixpoint wf_utf8 (l : bytes) : bool :=
  match l with
  | [] => true
  | b0 :: r =>
    if inr 0 127 b0 then wf_utf8 r                                      (* U+0000..U+007F *)
    else if inr 194 223 b0 then                                         (* U+0080..U+07FF   C2..DF 80..BF *)
      match r with b1 :: r' => cont b1 && wf_utf8 r' | _ => false end
    else if b0 =? 224 then                                              (* U+0800..U+0FFF   E0 A0..BF 80..BF *)
      match r with b1 :: b2 :: r' => inr 160 191 b1 && cont b2 && wf_utf8 r' | _ => false end
    else if inr 225 236 b0 then                                         (* U+1000..U+CFFF   E1..EC 80..BF 80..BF *)
      match r with b1 :: b2 :: r' => cont b1 && cont b2 && wf_utf8 r' | _ => false end
    else if b0 =? 237 then                                              (* U+D000..U+D7FF   ED 80..9F 80..BF *)
      match r with b1 :: b2 :: r' => inr 128 159 b1 && cont b2 && wf_utf8 r' | _ => false end
    else if inr 238 239 b0 then                                         (* U+E000..U+FFFF   EE..EF 80..BF 80..BF *)
      match r with b1 :: b2 :: r' => cont b1 && cont b2 && wf_utf8 r' | _ => false end
    else if b0 =? 240 then                                              (* U+10000..U+3FFFF  F0 90..BF 80..BF 80..BF *)
      match r with b1 :: b2 :: b3 :: r' => inr 144 191 b1 && cont b2 && cont b3 && wf_utf8 r' | _ => false end
    else if inr 241 243 b0 then                                         (* U+40000..U+FFFFF  F1..F3 80..BF 80..BF 80..BF *)
      match r with b1 :: b2 :: b3 :: r' => cont b1 && cont b2 && cont b3 && wf_utf8 r' | _ => false end
    else if b0 =? 244 then                                              (* U+100000..U+10FFFF F4 80..8F 80..BF 80..BF *)
      match r with b1 :: b2 :: b3 :: r' => inr 128 143 b1 && cont b2 && cont b3 && wf_utf8 r' | _ => false end
    else false
  end.

(* Encoding of a Unicode scalar value (adequacy of the table: see Proofs/Utf8Adequacy). *)
Definition scalar (c : Z) : bool := inr 0 55295 c || inr 57344 1114111 c.
Definition utf8_encode1 (c : Z) : bytes :=
  if c <? 128 then [c]
  else if c <? 2048 then [192 + c / 64; 128 + c mod 64]
  else if c <? 65536 then [224 + c / 4096; 128 + (c / 64) mod 64; 128 + c mod 64]
  else [240 + c / 262144; 128 + (c / 4096) mod 64; 128 + (c / 64) mod 64; 128 + c mod 64].
Definition utf8_encode (cs : list Z) : bytes := flat_map utf8_encode1 cs.
