(* Which frames and frame sequences RFC 6455 allows a server to send (sections 5.2, 5.4,
   5.5, 5.5.1, 7.4), what a receiver must deliver from a legal sequence (reassembly), and
   which automatic replies it owes.  Written from the RFC; no reference to the code. *)
From Coq Require Import ZArith List Bool.
From WS Require Import Base.Bytes Spec.Frame Spec.Utf8.
Import ListNotations.
Open Scope Z_scope.

Inductive verdict3 := Legal | Illegal | Unconstrained.

Definition OP_CONT := 0. Definition OP_TEXT := 1. Definition OP_BIN := 2.
Definition OP_CLOSE := 8. Definition OP_PING := 9. Definition OP_PONG := 10.
Definition is_control (op : Z) : bool := 8 <=? op.
Definition is_data (op : Z) : bool := (op =? OP_CONT) || (op =? OP_TEXT) || (op =? OP_BIN).
Definition known_opcode (op : Z) : bool :=
  is_data op || (op =? OP_CLOSE) || (op =? OP_PING) || (op =? OP_PONG).

(* RFC 6455 7.4.1/7.4.2: codes an endpoint may put on the wire.  1012..1014 were registered
   with IANA after the RFC: left unconstrained. *)
Definition close_code (c : Z) : verdict3 :=
  if existsb (Z.eqb c) [1000; 1001; 1002; 1003; 1007; 1008; 1009; 1010; 1011] then Legal
  else if (3000 <=? c) && (c <=? 4999) then Legal
  else if (1012 <=? c) && (c <=? 1014) then Unconstrained
  else Illegal.

(* a single frame, independent of its position in the stream; [check_utf8] = validation on *)
Definition frame_verdict (check_utf8 : bool) (f : wframe) : verdict3 :=
  let h := wh f in
  let n := zlen (wpayload f) in
  if negb ((h_rsv1 h =? 0) && (h_rsv2 h =? 0) && (h_rsv3 h =? 0)) then Illegal      (* 5.2: no extension negotiated *)
  else if negb (known_opcode (h_opcode h)) then Illegal                              (* 5.2: reserved opcodes *)
  else if is_control (h_opcode h) then
    if h_fin h =? 0 then Illegal                                                     (* 5.5: must not be fragmented *)
    else if 125 <? n then Illegal                                                    (* 5.5: payload <= 125 *)
    else if h_opcode h =? OP_CLOSE then
      if n =? 0 then Legal
      else if n =? 1 then Illegal                                                    (* 5.5.1: 2-byte code if any body *)
      else
        match wpayload f with
        | b0 :: b1 :: reason =>
          match close_code (256 * b0 + b1) with
          | Illegal => Illegal
          | v => if check_utf8 && negb (wf_utf8 reason) then Illegal else v             (* 5.5.1: UTF-8 reason *)
          end
        | _ => Illegal
        end
    else Legal
  else Legal.

(* sequencing (5.4): [inprog] = a fragmented message is in progress *)
Definition seq_ok (inprog : bool) (f : wframe) : bool :=
  let op := h_opcode (wh f) in
  if is_control op then true
  else if op =? OP_CONT then inprog
  else negb inprog.
Definition seq_next (inprog : bool) (f : wframe) : bool :=
  if is_data (h_opcode (wh f)) then (h_fin (wh f) =? 0) else inprog.

(* a whole sequence is legal when every frame is, in its position *)
Fixpoint legal_seq (check_utf8 : bool) (inprog : bool) (fs : list wframe) : bool :=
  match fs with
  | [] => true
  | f :: r => match frame_verdict check_utf8 f with Legal => true | _ => false end
              && seq_ok inprog f && legal_seq check_utf8 (seq_next inprog f) r
  end.

(* Reassembly: messages (opcode of the first fragment, concatenated payload) in order;
   control frames do not disturb it.  [acc] = the message in progress. *)
Fixpoint reassemble (acc : option (Z * bytes)) (fs : list wframe) : list (Z * bytes) :=
  match fs with
  | [] => []
  | f :: r =>
    let op := h_opcode (wh f) in
    if is_control op then reassemble acc r
    else
      let cur := match acc with
                 | Some (op0, d) => (op0, d ++ wpayload f)
                 | None => (op, wpayload f)
                 end in
      if h_fin (wh f) =? 0 then reassemble (Some cur) r
      else cur :: reassemble None r
  end.

(* per-fragment delivery: every data frame individually *)
Definition per_fragment (fs : list wframe) : list (Z * Z * bytes) :=
  map (fun f => (h_opcode (wh f), h_fin (wh f), wpayload f))
      (filter (fun f => is_data (h_opcode (wh f))) fs).

(* pongs owed: one per ping, same payload, in order *)
Definition pongs_owed (fs : list wframe) : list bytes :=
  map wpayload (filter (fun f => h_opcode (wh f) =? OP_PING) fs).
