(* What a receiver must deliver from a byte stream: the RFC decoder applied repeatedly.
   [verdict] is the per-frame validity check (Spec/Legal.v supplies the RFC's). *)
From Coq Require Import ZArith List Bool.
From WS Require Import Base.Res Base.Bytes Spec.Frame.
Import ListNotations.
Open Scope Z_scope.

(* result of asking for "the next frame" of stream s: the frame (or the protocol error its
   content deserves) and the rest of the stream; None = the stream ends before the frame does *)
Definition next_frame (verdict : wframe -> res unit) (s : bytes) : option (res wframe * bytes) :=
  match decode s with
  | Frame f rest | NotShortest f rest =>
      Some (match verdict f with Ok _ => Ok f | Raise e => Raise e end, rest)
  | Incomplete => None
  end.

(* all results until the stream runs dry, then the connection-closed report *)
Fixpoint stream_results (verdict : wframe -> res unit) (fuel : nat) (s : bytes) : list (res wframe) :=
  match fuel with
  | O => []
  | S k =>
    match next_frame verdict s with
    | Some (r, rest) => r :: stream_results verdict k rest
    | None => [Raise ConnClosed]
    end
  end.
