(* Specification for property C19 (first half): when a target is exempt from proxying and when
   a connection goes through a proxy.  Written from the property text.

   A target host is exempt with respect to a list of entries exactly when
     (1) the list holds "*", or
     (2) the list holds the host itself, or
     (3) the host is an IPv4 address a.b.c.d and the list holds a CIDR block "n.n.n.n/k",
         0 <= k <= 32, that contains it:  ip AND mask(k) = network address, where
         mask(k) = 2^32 - 2^(32-k)  (k leading one bits), or
     (4) the host is a name and the list holds a leading-dot domain ".d" to which it belongs:
         host = d, or host ends with "." ++ d (a sub-domain, on a label boundary).

   "Is a dotted quad" is stated by RENDERING, not by parsing: a part is an octet when it is the
   decimal text of some n in 0..255 (found by search), so leading zeros, signs, short forms and
   other bases are not dotted quads.  The prefix length of a block is a non-empty string of
   decimal digits (leading zeros tolerated) with a value in 0..32.

   Clause (4) is restricted to hosts that are not IPv4 addresses: an address does not belong to
   a DNS domain.  [exempt_unguarded] drops the restriction; Proofs/UrlProof.v shows where the
   two differ (C19_ip_host_domain_note). *)
From Coq Require Import ZArith List Bool.
From WS Require Import Base.Bytes Base.Str Base.StrMore Base.Sweep.
Import ListNotations.
Open Scope Z_scope.

Definition s_star : str := [42].

(* the octet whose decimal text is t *)
Definition octet_of (t : str) : option Z :=
  find (fun n => str_eqb (str_of_Z n) t) (zrange 256 0).

Definition quad_of (s : str) : option (Z * Z * Z * Z) :=
  match split_on 46 s with
  | [a; b; c; d] =>
      match octet_of a, octet_of b, octet_of c, octet_of d with
      | Some x, Some y, Some z, Some w => Some (x, y, z, w)
      | _, _, _, _ => None
      end
  | _ => None
  end.

Definition quad_value (q : Z * Z * Z * Z) : Z :=
  let '(a, b, c, d) := q in a * 2 ^ 24 + b * 2 ^ 16 + c * 2 ^ 8 + d.

(* the netmask with k leading one bits *)
Definition mask (k : Z) : Z := 2 ^ 32 - 2 ^ (32 - k).

(* value of a non-empty string of decimal digits *)
Definition decimal (t : str) : option Z :=
  if negb (null t) && forallb is_digit t
  then Some (fold_left (fun acc c => acc * 10 + (c - 48)) t 0)
  else None.

(* "n.n.n.n/k" with 0 <= k <= 32: (network address, k) *)
Definition cidr_of (e : str) : option (Z * Z) :=
  match split_once 47 e with
  | Some (q, t) =>
      match quad_of q, decimal t with
      | Some qv, Some k => if (0 <=? k) && (k <=? 32) then Some (quad_value qv, k) else None
      | _, _ => None
      end
  | None => None
  end.

Definition in_block (ip : Z) (e : str) : bool :=
  match cidr_of e with
  | Some (net, k) => Z.land ip (mask k) =? net
  | None => false
  end.

(* suf is a suffix of s *)
Definition is_suffix (suf s : str) : bool := existsb (str_eqb suf) (tails s).

(* e is a leading-dot domain ".d" and host is d or ends with ".d" *)
Definition in_domain (host e : str) : bool :=
  match e with
  | c :: d => (c =? 46) && (str_eqb host d || is_suffix (46 :: d) host)
  | [] => false
  end.

Definition exempt (host : str) (lst : list str) : bool :=
  mem_str s_star lst || mem_str host lst ||
  match quad_of host with
  | Some q => existsb (in_block (quad_value q)) lst
  | None => existsb (in_domain host) lst
  end.

Definition exempt_unguarded (host : str) (lst : list str) : bool :=
  mem_str s_star lst || mem_str host lst ||
  match quad_of host with
  | Some q => existsb (in_block (quad_value q)) lst
  | None => false
  end
  || existsb (in_domain host) lst.

(* ---- the sources of the list and of the proxy ---- *)
Definition environ := list (str * str).
Definition v_no_proxy : str := [110; 111; 95; 112; 114; 111; 120; 121].
Definition v_NO_PROXY : str := [78; 79; 95; 80; 82; 79; 88; 89].
Definition v_http_proxy : str := [104; 116; 116; 112; 95; 112; 114; 111; 120; 121].
Definition v_HTTP_PROXY : str := [72; 84; 84; 80; 95; 80; 82; 79; 88; 89].
Definition v_https_proxy : str := [104; 116; 116; 112; 115; 95; 112; 114; 111; 120; 121].
Definition v_HTTPS_PROXY : str := [72; 84; 84; 80; 83; 95; 80; 82; 79; 88; 89].

(* a variable under its lower-case name when that is set (even to ""), else under its upper-case
   name, else ""; spaces do not count *)
Definition env_value (lower_name upper_name : str) (env : environ) : str :=
  let raw := match alist_get lower_name env with
             | Some v => v
             | None => match alist_get upper_name env with Some v => v | None => [] end
             end in
  filter (fun c => negb (c =? 32)) raw.

(* the exemption list: the no_proxy option when it lists something, else the comma-separated
   value of the environment variable, else nothing *)
Definition no_proxy_list (opt : option (list str)) (env : environ) : list str :=
  match opt with
  | Some (x :: l) => x :: l
  | _ => match env_value v_no_proxy v_NO_PROXY env with
         | [] => []
         | v => split_on 44 v
         end
  end.

(* the environment variable of the scheme: http_proxy for ws, https_proxy for wss *)
Definition scheme_proxy_value (is_secure : bool) (env : environ) : str :=
  if is_secure then env_value v_https_proxy v_HTTPS_PROXY env
  else env_value v_http_proxy v_HTTP_PROXY env.

Definition given (o : option str) : bool := match o with Some (_ :: _) => true | _ => false end.

(* a connection goes through a proxy exactly when one is given by option or by the scheme's
   environment variable and the target is not exempt *)
Definition use_proxy (host : str) (is_secure : bool) (proxy_host : option str)
    (no_proxy : option (list str)) (env : environ) : bool :=
  negb (exempt host (no_proxy_list no_proxy env))
  && (given proxy_host || negb (null (scheme_proxy_value is_secure env))).
