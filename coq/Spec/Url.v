(* Specification for property C18 (first half): what a ws:// or wss:// URL denotes.
   Written from the property text and RFC 3986 section 3, not from the code: a URL is GIVEN by
   its components, [render] writes it down and [expected] says what the client must derive
   from it.  Nothing here parses.

     URL       = scheme "://" [ userinfo "@" ] host [ ":" port ] path [ "?" query ]
     scheme    = "ws" / "wss"
     host      = reg-name / IPv4address / "[" IPv6address "]"
     port      = 1..65535 in decimal without leading zeros
     path      = "" / "/" *( pchar / "/" )
     query     = 1*( pchar / "/" / "?" )

   Choices made here:
   - letters in a host may be upper case; the expected target is the lower-cased host
     (RFC 3986 3.2.2: the host is case-insensitive and normalised to lower case);
   - a reg-name is taken over ALPHA / DIGIT / "-" / "." (no percent-encoding, no sub-delims);
   - an IPv6 literal is any non-empty text over hex digits, ":" and "." with at least two ":"
     (validity of the literal beyond its alphabet is not described here; no zone identifier);
   - the query, when present, is not empty ("?" followed by nothing is outside the grammar);
   - pchar includes ";" (a sub-delim), so paths with ";parameters" are part of the grammar;
     the only paths left out are those ENDING in ";" (see C18_trailing_semicolon_refuted in
     Proofs/UrlProof.v for what the code does with them). *)
From Coq Require Import ZArith List Bool.
From WS Require Import Base.Bytes Base.Str Base.StrMore.
Import ListNotations.
Open Scope Z_scope.

Inductive scheme := SWs | SWss.

Inductive host :=
  | HName (n : str)            (* reg-name *)
  | HIPv4 (a b c d : Z)        (* dotted quad a.b.c.d *)
  | HIPv6 (lit : str).         (* the text between the brackets *)

Record url_parts := mk_parts {
  p_scheme : scheme;
  p_userinfo : option str;
  p_host : host;
  p_port : option Z;
  p_path : str;
  p_query : option str }.

(* ---- character classes of RFC 3986 ---- *)
Definition in_chars (c : Z) (l : list Z) : bool := existsb (Z.eqb c) l.
(* unreserved = ALPHA / DIGIT / "-" / "." / "_" / "~" *)
Definition unreserved (c : Z) : bool := is_alpha c || is_digit c || in_chars c [45; 46; 95; 126].
(* sub-delims = "!" / "$" / "&" / "'" / "(" / ")" / "*" / "+" / "," / ";" / "=" *)
Definition sub_delim (c : Z) : bool := in_chars c [33; 36; 38; 39; 40; 41; 42; 43; 44; 59; 61].
(* pchar = unreserved / pct-encoded / sub-delims / ":" / "@"   ("%" stands for pct-encoded) *)
Definition pchar (c : Z) : bool := unreserved c || sub_delim c || in_chars c [37; 58; 64].
Definition userinfo_char (c : Z) : bool := unreserved c || sub_delim c || in_chars c [37; 58].
Definition name_char (c : Z) : bool := is_alpha c || is_digit c || in_chars c [45; 46].
Definition ip6_lit_char (c : Z) : bool := is_hex c || in_chars c [58; 46].
Definition path_char (c : Z) : bool := pchar c || (c =? 47).
Definition query_char (c : Z) : bool := pchar c || (c =? 47) || (c =? 63).

(* ---- well-formed components ---- *)
Definition octet_ok (a : Z) : bool := (0 <=? a) && (a <=? 255).
Definition wf_host (h : host) : bool :=
  match h with
  | HName n => negb (null n) && forallb name_char n
  | HIPv4 a b c d => octet_ok a && octet_ok b && octet_ok c && octet_ok d
  | HIPv6 lit => negb (null lit) && forallb ip6_lit_char lit && (2 <=? count_char 58 lit)
  end.
Definition wf_port (p : option Z) : bool :=
  match p with None => true | Some n => (1 <=? n) && (n <=? 65535) end.
Definition wf_path (p : str) : bool :=
  match p with
  | [] => true
  | c :: _ => (c =? 47) && forallb path_char p && negb (last p 0 =? 59)
  end.
Definition wf_query (q : option str) : bool :=
  match q with None => true | Some t => negb (null t) && forallb query_char t end.
Definition wf_userinfo (u : option str) : bool :=
  match u with None => true | Some t => forallb userinfo_char t end.

Definition wf_partsb (p : url_parts) : bool :=
  wf_userinfo (p_userinfo p) && wf_host (p_host p) && wf_port (p_port p)
  && wf_path (p_path p) && wf_query (p_query p).
Definition wf_parts (p : url_parts) : Prop := wf_partsb p = true.

(* ---- writing a URL down ---- *)
Definition scheme_text (s : scheme) : str :=
  match s with SWs => [119; 115] | SWss => [119; 115; 115] end.

Definition host_text (h : host) : str :=
  match h with
  | HName n => n
  | HIPv4 a b c d => str_of_Z a ++ [46] ++ str_of_Z b ++ [46] ++ str_of_Z c ++ [46] ++ str_of_Z d
  | HIPv6 lit => lit
  end.

Definition host_render (h : host) : str :=
  match h with HIPv6 lit => [91] ++ lit ++ [93] | _ => host_text h end.

Definition authority (p : url_parts) : str :=
  (match p_userinfo p with Some u => u ++ [64] | None => [] end)
  ++ host_render (p_host p)
  ++ (match p_port p with Some n => 58 :: str_of_Z n | None => [] end).

Definition path_query (p : url_parts) : str :=
  p_path p ++ (match p_query p with Some q => 63 :: q | None => [] end).

(* the URL with an arbitrary scheme text in front (used for the foreign-scheme statements) *)
Definition render_with_scheme (sch : str) (p : url_parts) : str :=
  sch ++ [58; 47; 47] ++ authority p ++ path_query p.

Definition render (p : url_parts) : str := render_with_scheme (scheme_text (p_scheme p)) p.

(* ---- what the client must derive: (target host, target port, resource, TLS) ---- *)
Definition expected_host (h : host) : str := lower (host_text h).
Definition expected_port (p : url_parts) : Z :=
  match p_port p with
  | Some n => n
  | None => match p_scheme p with SWs => 80 | SWss => 443 end
  end.
Definition expected_resource (p : url_parts) : str :=
  (match p_path p with [] => [47] | pth => pth end)
  ++ (match p_query p with Some q => 63 :: q | None => [] end).
Definition expected_secure (p : url_parts) : bool :=
  match p_scheme p with SWs => false | SWss => true end.

Definition expected (p : url_parts) : str * Z * str * bool :=
  (expected_host (p_host p), expected_port p, expected_resource p, expected_secure p).

(* a scheme name: ALPHA *( ALPHA / DIGIT / "+" / "-" / "." ), here over letters only *)
Definition scheme_ok (sch : str) : Prop := sch <> [] /\ forallb is_alpha sch = true.
