(* RFC 6455 section 5.2 base framing, written from the RFC alone: an independent
   decoder of one frame from a byte string, and of a whole stream. *)
From Coq Require Import ZArith List Bool.
From WS Require Import Base.Bytes.
Import ListNotations.
Open Scope Z_scope.

Record hdr := { h_fin : Z; h_rsv1 : Z; h_rsv2 : Z; h_rsv3 : Z; h_opcode : Z }.
(* payload is stored already unmasked; wkey is the masking key that was on the wire, if any *)
Record wframe := { wh : hdr; wkey : option bytes; wpayload : bytes }.

Inductive dec :=
  | Frame (f : wframe) (rest : bytes)       (* one whole frame, shortest length form *)
  | NotShortest (f : wframe) (rest : bytes) (* decodable, but the length field is not the minimal one *)
  | Incomplete.                             (* the bytes end inside the frame *)

(* first n items and the remainder, if there are at least n *)
Fixpoint zsplit (n : Z) (l : bytes) : option (bytes * bytes) :=
  if n <=? 0 then Some ([], l) else
  match l with
  | [] => None
  | b :: r => match zsplit (n - 1) r with
              | Some (a, c) => Some (b :: a, c)
              | None => None
              end
  end.

(* [unmask key payload]: the RFC's cyclic xor; a parameter only so that an optimised but
   provably equal implementation can be extracted (Proofs/XorFast.v). *)
Definition decode_with (unmask : bytes -> bytes -> bytes) (s : bytes) : dec :=
  match s with
  | b0 :: b1 :: r =>
    let h := {| h_fin := b0 / 128; h_rsv1 := (b0 / 64) mod 2; h_rsv2 := (b0 / 32) mod 2;
                h_rsv3 := (b0 / 16) mod 2; h_opcode := b0 mod 16 |} in
    let masked := b1 / 128 in
    let l7 := b1 mod 128 in
    (* payload length, bytes after the length field, "was the shortest form used" *)
    let lenr :=
      if l7 <? 126 then Some (l7, r, true)
      else if l7 =? 126 then
        match zsplit 2 r with
        | Some (e, r') => Some (be_decode e, r', 126 <=? be_decode e)
        | None => None
        end
      else
        match zsplit 8 r with
        | Some (e, r') => Some (be_decode e, r', (65536 <=? be_decode e) && (be_decode e <? 2 ^ 63))
        | None => None
        end in
    match lenr with
    | None => Incomplete
    | Some (n, r1, shortest) =>
      let keyr := if masked =? 1 then
                    match zsplit 4 r1 with Some (k, r2) => Some (Some k, r2) | None => None end
                  else Some (None, r1) in
      match keyr with
      | None => Incomplete
      | Some (key, r2) =>
        match zsplit n r2 with
        | None => Incomplete
        | Some (p, rest) =>
          let payload := match key with Some k => unmask k p | None => p end in
          let f := {| wh := h; wkey := key; wpayload := payload |} in
          if shortest then Frame f rest else NotShortest f rest
        end
      end
    end
  | _ => Incomplete
  end.

Definition decode : bytes -> dec := decode_with (fun k p => xor_cyc k 0 p).

(* all whole frames of a stream, and the undecodable remainder *)
Fixpoint decode_all_with (dc : bytes -> dec) (fuel : nat) (s : bytes) : list wframe * bytes :=
  match fuel with
  | O => ([], s)
  | S k =>
    match dc s with
    | Frame f rest | NotShortest f rest =>
        let '(fs, tl) := decode_all_with dc k rest in (f :: fs, tl)
    | Incomplete => ([], s)
    end
  end.

Definition decode_all := decode_all_with decode.

(* canonical server/client encoding of a frame: shortest length form *)
Definition encode_with (mask : bytes -> bytes -> bytes) (f : wframe) : bytes :=
  let h := wh f in
  let n := zlen (wpayload f) in
  let b0 := 128 * h_fin h + 64 * h_rsv1 h + 32 * h_rsv2 h + 16 * h_rsv3 h + h_opcode h in
  let m := match wkey f with Some _ => 128 | None => 0 end in
  let lenf := if n <? 126 then [m + n]
              else if n <? 65536 then (m + 126) :: be_encode 2 n
              else (m + 127) :: be_encode 8 n in
  b0 :: lenf ++ match wkey f with
                | Some k => k ++ mask k (wpayload f)
                | None => wpayload f
                end.

Definition encode : wframe -> bytes := encode_with (fun k p => xor_cyc k 0 p).
