(* What an application must observe from WebSocketApp (documentation of on_open / on_data /
   on_message / on_ping / on_pong / on_error / on_close), written from the documentation and
   RFC 6455 message semantics; independent of the code's structure. *)
From Coq Require Import ZArith List Bool.
From WS Require Import Base.Bytes Spec.Frame Spec.Legal.
Import ListNotations.
Open Scope Z_scope.

(* what a legal frame sequence amounts to, in arrival order: whole messages and control frames *)
Inductive item := ItMsg (op : Z) (d : bytes) | ItPing (d : bytes) | ItPong (d : bytes) | ItClose (body : bytes).

Fixpoint items (acc : option (Z * bytes)) (fs : list wframe) : list item :=
  match fs with
  | [] => []
  | f :: r =>
    let op := h_opcode (wh f) in
    if op =? OP_PING then ItPing (wpayload f) :: items acc r
    else if op =? OP_PONG then ItPong (wpayload f) :: items acc r
    else if op =? OP_CLOSE then ItClose (wpayload f) :: items acc r
    else
      let cur := match acc with Some (op0, d) => (op0, d ++ wpayload f) | None => (op, wpayload f) end in
      if h_fin (wh f) =? 0 then items (Some cur) r
      else ItMsg (fst cur) (snd cur) :: items None r
  end.

(* the close status and reason an application must be told: those of the server's close frame *)
Definition close_info (body : bytes) : option Z * option bytes :=
  match body with
  | b0 :: b1 :: reason => (Some (256 * b0 + b1), Some reason)
  | _ => (None, None)
  end.
