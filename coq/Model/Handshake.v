(* Opening handshake: request construction (_get_handshake_headers), response validation
   (_get_resp_headers, _validate) and handshake() of websocket/_handshake.py. *)
From Coq Require Import ZArith List Bool.
From WS Require Import Base.Res Base.Bytes Base.Str Base.StrInt Base.B64 Base.Sha1 Gen.GenHandshake
  Model.Xport Model.Http.
Import ListNotations.
Open Scope Z_scope.

Definition s (l : list Z) : str := l.
Definition S_GET := [71; 69; 84; 32].                                   (* "GET " *)
Definition S_HTTP11 := [32; 72; 84; 84; 80; 47; 49; 46; 49].             (* " HTTP/1.1" *)
Definition S_UPGRADE_WS := [85; 112; 103; 114; 97; 100; 101; 58; 32; 119; 101; 98; 115; 111; 99; 107; 101; 116]. (* "Upgrade: websocket" *)
Definition S_HOST := [72; 111; 115; 116; 58; 32].                        (* "Host: " *)
Definition S_ORIGIN := [79; 114; 105; 103; 105; 110; 58; 32].            (* "Origin: " *)
Definition S_HTTPS := [104; 116; 116; 112; 115; 58; 47; 47].             (* "https://" *)
Definition S_HTTP := [104; 116; 116; 112; 58; 47; 47].                   (* "http://" *)
Definition S_KEY := [83; 101; 99; 45; 87; 101; 98; 83; 111; 99; 107; 101; 116; 45; 75; 101; 121].  (* "Sec-WebSocket-Key" *)
Definition S_VERSION := [83; 101; 99; 45; 87; 101; 98; 83; 111; 99; 107; 101; 116; 45; 86; 101; 114; 115; 105; 111; 110]. (* "Sec-WebSocket-Version" *)
Definition S_CONN_UPGRADE := [67; 111; 110; 110; 101; 99; 116; 105; 111; 110; 58; 32; 85; 112; 103; 114; 97; 100; 101]. (* "Connection: Upgrade" *)
Definition S_CONN := [67; 111; 110; 110; 101; 99; 116; 105; 111; 110; 58; 32].  (* "Connection: " *)
Definition S_PROTO := [83; 101; 99; 45; 87; 101; 98; 83; 111; 99; 107; 101; 116; 45; 80; 114; 111; 116; 111; 99; 111; 108; 58; 32]. (* "Sec-WebSocket-Protocol: " *)
Definition S_COOKIE := [67; 111; 111; 107; 105; 101; 58; 32].            (* "Cookie: " *)
Definition S_COLON_SP := [58; 32].
Definition S_WSS := [119; 115; 115].
Definition CRLF := [13; 10].

(* the `header` option: a list of lines, or a dict name -> value-or-None *)
Inductive hdropt := HNone | HList (lines : list str) | HDict (items : list (str * option str)).

Record hsopts := {
  o_host : option str;              (* host= *)
  o_origin : option (option str);   (* "origin" in options ; Some None = present but None *)
  o_suppress_origin : bool;
  o_subprotocols : list str;
  o_cookie : option str;
  o_header : hdropt;
  o_connection : option str
}.

Definition pack_hostname (h : str) : str := if contains_char 58 h then [91] ++ h ++ [93] else h.

Definition hdr_truthy (h : hdropt) : bool :=
  match h with HNone => false | HList l => negb (Nat.eqb (length l) 0) | HDict d => negb (Nat.eqb (length d) 0) end.
(* `name in options["header"]` : list membership of the exact string, or dict key lookup *)
Definition hdr_has (name : str) (h : hdropt) : bool :=
  match h with
  | HNone => false
  | HList l => mem_str name l
  | HDict d => existsb (fun kv => str_eqb name (fst kv)) d
  end.
Definition opt_truthy (o : option str) : bool := match o with Some (_ :: _) => true | _ => false end.
Definition opt_get (o : option str) : str := match o with Some x => x | None => [] end.

(* returns (request lines, key used for validation) ; [fresh_key] = b64 of the 16 random bytes drawn *)
Definition get_handshake_headers (resource scheme host : str) (port : Z) (o : hsopts) (fresh_key : str)
    (server_cookie : str) : res (list str * str) :=
  let hostport := if host_port_omitted port then pack_hostname host
                  else pack_hostname host ++ [58] ++ str_of_Z port in
  let l1 := [S_GET ++ resource ++ S_HTTP11; S_UPGRADE_WS] in
  let l2 := l1 ++ [S_HOST ++ (if opt_truthy (o_host o) then opt_get (o_host o) else hostport)] in
  let l3 := if o_suppress_origin o then l2
            else match o_origin o with
                 | Some (Some og) => l2 ++ [S_ORIGIN ++ og]
                 | _ => if str_eqb scheme S_WSS then l2 ++ [S_ORIGIN ++ S_HTTPS ++ hostport]
                        else l2 ++ [S_ORIGIN ++ S_HTTP ++ hostport]
                 end in
  (* key *)
  let use_own_key := negb (hdr_truthy (o_header o)) || negb (hdr_has S_KEY (o_header o)) in
  let keyr : res (list str * str) :=
    if use_own_key then Ok (l3 ++ [S_KEY ++ S_COLON_SP ++ fresh_key], fresh_key)
    else match o_header o with
         | HDict d => match alist_get S_KEY d with
                      | Some (Some k) => Ok (l3, k)
                      | _ => Raise (Internal TypeErr)        (* a None value: f-string later; out of domain *)
                      end
         | _ => Raise (Internal TypeErr)                     (* list indexed by a string *)
         end in
  match keyr with
  | Raise e => Raise e
  | Ok (l4, key) =>
    let l5 := if negb (hdr_truthy (o_header o)) || negb (hdr_has S_VERSION (o_header o))
              then l4 ++ [S_VERSION ++ S_COLON_SP ++ str_of_Z VERSION] else l4 in
    let l6 := if opt_truthy (o_connection o) then l5 ++ [S_CONN ++ opt_get (o_connection o)] else l5 ++ [S_CONN_UPGRADE] in
    let l7 := match o_subprotocols o with [] => l6 | sp => l6 ++ [S_PROTO ++ join [44] sp] end in
    let l8 := match o_header o with
              | HList l => if hdr_truthy (o_header o) then l7 ++ l else l7
              | HDict d => l7 ++ flat_map (fun kv => match snd kv with Some v => [fst kv ++ S_COLON_SP ++ v] | None => [] end) d
              | HNone => l7
              end in
    let cookie := join [59; 32] (filter (fun c => negb (Nat.eqb (length c) 0)) [server_cookie; opt_get (o_cookie o)]) in
    let l9 := match cookie with [] => l8 | _ => l8 ++ [S_COOKIE ++ cookie] end in
    Ok (l9 ++ [[]; []], key)
  end.

Definition request_bytes (lines : list str) : bytes := join CRLF lines.

(* ---- response validation ---- *)
Definition S_LOCATION := [108; 111; 99; 97; 116; 105; 111; 110].
Definition S_CONTENT_LENGTH := [99; 111; 110; 116; 101; 110; 116; 45; 108; 101; 110; 103; 116; 104].
Definition S_SEC_PROTO := [115; 101; 99; 45; 119; 101; 98; 115; 111; 99; 107; 101; 116; 45; 112; 114; 111; 116; 111; 99; 111; 108].
Definition S_SEC_ACCEPT := [115; 101; 99; 45; 119; 101; 98; 115; 111; 99; 107; 101; 116; 45; 97; 99; 99; 101; 112; 116].

Definition accept_value (key : str) : str := b64_encode (sha1 (key ++ GUID)).

(* _validate(headers, key, subprotocols) -> (success, subproto) *)
Definition hs_validate (hs : headers) (key : str) (subprotocols : list str) : bool * option str :=
  let checks := forallb (fun kv =>
      match alist_get (fst kv) hs with
      | Some (c :: r) => mem_str (snd kv) (map (fun t => lower (strip t)) (split_all 44 (c :: r)))
      | _ => false
      end) HEADERS_TO_CHECK in
  if negb checks then (false, None)
  else
    let subr : option (option str) :=
      match subprotocols with
      | [] => Some None
      | _ => match alist_get S_SEC_PROTO hs with
             | Some (c :: r) => if mem_str (lower (c :: r)) (map lower subprotocols) then Some (Some (lower (c :: r))) else None
             | _ => None
             end
      end in
    match subr with
    | None => (false, None)
    | Some sub =>
      match alist_get S_SEC_ACCEPT hs with
      | Some (c :: r) => if str_eqb (c :: r) (accept_value key) then (true, sub) else (false, None)
      | _ => (false, None)
      end
    end.

(* outcome of one request/response exchange *)
Inductive hs_result := HsRedirect (status : Z) (hs : headers) | HsOk (status : Z) (hs : headers) (sub : option str).

(* error-body read: sock.recv(min(content_len, 16384)) directly on the socket *)
Definition body_read (hs : headers) (x : xport) : res unit * xport :=
  match alist_get S_CONTENT_LENGTH hs with
  | Some (c :: r) =>
    match py_int (c :: r) with
    | Some n => if 0 <? n then
                  match sock_recv (Z.min n 16384) x with
                  | (Raise TimedOut, x') => (Raise (Transport 0), x')       (* raw socket.timeout *)
                  | (Raise ConnClosed, x') => (Ok tt, x')                    (* b"" : no wrapper here *)
                  | (Raise e, x') => (Raise e, x')
                  | (Ok _, x') => (Ok tt, x')
                  end
                else (Ok tt, x)
    | None => (Ok tt, x)
    end
  | _ => (Ok tt, x)
  end.

Definition handshake (x : xport) (request : bytes) (key : str) (subprotocols : list str) : res hs_result * xport :=
  let x1 := xlog x (IWrite request) in
  match read_headers x1 with
  | (Raise e, x2) => (Raise e, x2)
  | (Ok h, x2) =>
    let st := match h_status h with Some z => z | None => -1 end in
    if negb (existsb (Z.eqb st) SUCCESS_STATUSES) || match h_status h with None => true | _ => false end then
      match body_read (h_headers h) x2 with
      | (Raise e, x3) => (Raise e, x3)
      | (Ok _, x3) => (Raise (BadStatus st), x3)
      end
    else if existsb (Z.eqb st) SUPPORTED_REDIRECT_STATUSES then (Ok (HsRedirect st (h_headers h)), x2)
    else
      match hs_validate (h_headers h) key subprotocols with
      | (true, sub) => (Ok (HsOk st (h_headers h) sub), x2)
      | (false, _) => (Raise WsGeneric, x2)
      end
  end.
