(* The transport as the library sees it through websocket._socket.recv / send. *)
From Coq Require Import ZArith List Bool.
From WS Require Import Base.Res Base.Bytes.
Import ListNotations.
Open Scope Z_scope.

(* what the peer / network does next *)
Inductive ev := Data (bs : bytes) | Timeout | Reset.

(* every transport call, in order *)
Inductive io := IRead (n : Z) | IWrite (bs : bytes) | IClose | IShutdown | ISetTimeout.

Record xport := { inbox : list ev; iolog : list io }.

Definition xlog (x : xport) (e : io) : xport := {| inbox := inbox x; iolog := iolog x ++ [e] |}.

(* one sock.recv(n) through _socket.recv: at most n bytes of the head segment; the end of the
   script and an empty segment are an orderly end of stream (b"" -> ConnectionClosed). *)
Definition sock_recv (n : Z) (x : xport) : res bytes * xport :=
  let lg := iolog x ++ [IRead n] in
  match inbox x with
  | [] => (Raise ConnClosed, {| inbox := []; iolog := lg |})
  | Data bs :: r =>
      if zlen bs =? 0 then (Raise ConnClosed, {| inbox := r; iolog := lg |})
      else if zlen bs <=? n then (Ok bs, {| inbox := r; iolog := lg |})
      else (Ok (ztake n bs), {| inbox := Data (zdrop n bs) :: r; iolog := lg |})
  | Timeout :: r => (Raise TimedOut, {| inbox := r; iolog := lg |})
  | Reset :: r => (Raise (Transport 104), {| inbox := r; iolog := lg |})
  end.

(* the bytes the peer has sent and that are still to be read, up to the first Reset *)
Fixpoint flatten (l : list ev) : bytes :=
  match l with
  | [] => []
  | Data bs :: r => bs ++ flatten r
  | Timeout :: r => flatten r
  | Reset :: _ => []
  end.

(* well-formed scripts: data segments are non-empty (a real recv never returns b"" before EOF) *)
Fixpoint script_ok (l : list ev) : bool :=
  match l with
  | [] => true
  | Data bs :: r => negb (zlen bs =? 0) && script_ok r
  | _ :: r => script_ok r
  end.
Fixpoint no_reset (l : list ev) : bool :=
  match l with [] => true | Reset :: _ => false | _ :: r => no_reset r end.
