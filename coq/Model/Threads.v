(* Concurrency model for C12: n threads sharing one connection, small-step interleaving.
   [locked] says whether the critical section is protected by the lock — it is instantiated
   with structural facts that py2v extracts from websocket/_core.py and _abnf.py. *)
From Coq Require Import ZArith List Bool.
From WS Require Import Base.Bytes.
Import ListNotations.
Open Scope Z_scope.

(* ---------------- senders ---------------- *)
(* send_frame: data = frame.format(); with self.lock: while data: l = _send(data); data = data[l:] *)
Inductive sstate :=
  | SWaiting (frame : bytes)        (* formatted, wants the lock *)
  | SHolding (rest : bytes)         (* inside the write loop, [rest] still to be written *)
  | SDone.

Record sworld := { s_wire : bytes; s_lock : option nat; s_threads : list sstate }.

Definition set_nth {A} (l : list A) (i : nat) (x : A) : list A :=
  firstn i l ++ match skipn i l with [] => [] | _ :: r => x :: r end.

(* one step of thread i; k = how many bytes the transport accepts if the step is a write
   (clamped to 1..len).  None = the thread cannot move (blocked on the lock / finished / bad index). *)
Definition sstep (locked : bool) (w : sworld) (i : nat) (k : Z) : option sworld :=
  match nth_error (s_threads w) i with
  | Some (SWaiting f) =>
      if locked then
        match s_lock w with
        | None => Some {| s_wire := s_wire w; s_lock := Some i; s_threads := set_nth (s_threads w) i (SHolding f) |}
        | Some _ => None
        end
      else Some {| s_wire := s_wire w; s_lock := s_lock w; s_threads := set_nth (s_threads w) i (SHolding f) |}
  | Some (SHolding []) =>
      Some {| s_wire := s_wire w; s_lock := if locked then None else s_lock w;
              s_threads := set_nth (s_threads w) i SDone |}
  | Some (SHolding (b :: r)) =>
      let rest := b :: r in
      let a := Z.max 1 (Z.min k (zlen rest)) in
      let rest' := zdrop a rest in
      Some {| s_wire := s_wire w ++ ztake a rest; s_lock := s_lock w;
              s_threads := set_nth (s_threads w) i (SHolding rest') |}
  | _ => None
  end.

(* a schedule is a list of (thread, accepted bytes); steps that cannot move are skipped *)
Fixpoint srun (locked : bool) (w : sworld) (sched : list (nat * Z)) : sworld :=
  match sched with
  | [] => w
  | (i, k) :: r => match sstep locked w i k with Some w' => srun locked w' r | None => srun locked w r end
  end.

Definition sinit (frames : list bytes) : sworld :=
  {| s_wire := []; s_lock := None; s_threads := map SWaiting frames |}.
Definition all_sdone (w : sworld) : bool :=
  forallb (fun t => match t with SDone => true | _ => false end) (s_threads w).

(* ---------------- receivers ---------------- *)
(* recv(): with self.readlock: recv_data() — a receiver takes the chunks of the next message one
   transport read at a time.  The stream is a list of messages, each a non-empty list of chunks. *)
Inductive rstate :=
  | RWaiting
  | RHolding (got : list bytes)     (* chunks of the current message read so far *)
  | RDone (msg : list bytes).

Record rworld := { r_stream : list (list bytes);   (* messages not yet started *)
                   r_cur : list bytes;             (* remaining chunks of the message being read *)
                   r_lock : option nat; r_threads : list rstate }.

Definition rstep (locked : bool) (w : rworld) (i : nat) : option rworld :=
  match nth_error (r_threads w) i with
  | Some RWaiting =>
      if locked then
        match r_lock w with
        | None => Some {| r_stream := r_stream w; r_cur := r_cur w; r_lock := Some i;
                          r_threads := set_nth (r_threads w) i (RHolding []) |}
        | Some _ => None
        end
      else Some {| r_stream := r_stream w; r_cur := r_cur w; r_lock := r_lock w;
                   r_threads := set_nth (r_threads w) i (RHolding []) |}
  | Some (RHolding got) =>
      (* next chunk: of the message in progress, else start the next message *)
      match r_cur w, r_stream w with
      | c :: rest, _ =>
          let got' := got ++ [c] in
          match rest with
          | [] => Some {| r_stream := r_stream w; r_cur := []; r_lock := if locked then None else r_lock w;
                          r_threads := set_nth (r_threads w) i (RDone got') |}
          | _ => Some {| r_stream := r_stream w; r_cur := rest; r_lock := r_lock w;
                         r_threads := set_nth (r_threads w) i (RHolding got') |}
          end
      | [], (c :: rest) :: ms =>
          let got' := got ++ [c] in
          match rest with
          | [] => Some {| r_stream := ms; r_cur := []; r_lock := if locked then None else r_lock w;
                          r_threads := set_nth (r_threads w) i (RDone got') |}
          | _ => Some {| r_stream := ms; r_cur := rest; r_lock := r_lock w;
                         r_threads := set_nth (r_threads w) i (RHolding got') |}
          end
      | [], [] :: ms => None          (* messages have at least one chunk *)
      | [], [] => None                (* nothing to read: blocks *)
      end
  | _ => None
  end.

Fixpoint rrun (locked : bool) (w : rworld) (sched : list nat) : rworld :=
  match sched with
  | [] => w
  | i :: r => match rstep locked w i with Some w' => rrun locked w' r | None => rrun locked w r end
  end.

Definition rinit (stream : list (list bytes)) (n : nat) : rworld :=
  {| r_stream := stream; r_cur := []; r_lock := None; r_threads := repeat RWaiting n |}.
Definition delivered (w : rworld) : list (list bytes) :=
  flat_map (fun t => match t with RDone m => [m] | _ => [] end) (r_threads w).
