(* _http._open_socket: try every resolved address in order. *)
From Coq Require Import ZArith List Bool.
From WS Require Import Base.Res Base.Bytes.
Import ListNotations.
Open Scope Z_scope.

Inductive addr_outcome := AAccept | ARefused | AUnreach | AOther (errno : Z).

(* what is done to the i-th socket, in order *)
Inductive sockev := SCreate (i : nat) | SSetTimeout (i : nat) | SSetOptsDefault (i : nat) | SSetOptsUser (i : nat)
                  | SConnect (i : nat) | SCloseSock (i : nat).

Definition prep (i : nat) : list sockev := [SCreate i; SSetTimeout i; SSetOptsDefault i; SSetOptsUser i; SConnect i].

(* returns the index of the connected socket or the exception, and the log *)
Fixpoint open_socket_from (i : nat) (addrs : list addr_outcome) (last_err : option Z) (log : list sockev)
  : res nat * list sockev :=
  match addrs with
  | [] => match last_err with
          | Some e => (Raise (Transport e), log)
          | None => (Raise (Internal AttrErr), log)       (* empty list: excluded by the caller ("Host not found") *)
          end
  | a :: r =>
    let log1 := log ++ prep i in
    match a with
    | AAccept => (Ok i, log1)
    | ARefused => open_socket_from (S i) r (Some 111) (log1 ++ [SCloseSock i])
    | AUnreach => open_socket_from (S i) r (Some 101) (log1 ++ [SCloseSock i])
    | AOther e => (Raise (Transport e), log1 ++ [SCloseSock i])
    end
  end.

Definition open_socket (addrs : list addr_outcome) : res nat * list sockev := open_socket_from 0 addrs None [].
