(* Keepalive in virtual time (C16): the ping thread (_send_ping), the dispatcher loop's select
   timeout and check() of websocket/_app.py / _dispatcher.py as a timed transition system over
   integer ticks.  Callbacks and frame processing take zero time.  The comparisons of check() and
   the argument checks of run_forever are regenerated from the source (Gen/GenApp.v). *)
From Coq Require Import ZArith List Bool.
From WS Require Import Base.Res Base.Bytes Gen.GenApp.
Import ListNotations.
Open Scope Z_scope.

Inductive arrival := APong | AData.            (* what the loop reads when the socket becomes readable *)

Record tstate := {
  now : Z;
  last_ping : Z;           (* 0 = none yet (as float(0) in the code) *)
  last_pong : Z;
  next_ping : Z;           (* when the ping thread's current wait(interval) ends *)
  next_check : Z;          (* when the loop's select(ping_timeout) times out *)
  pings : list Z           (* times at which pings were written, oldest first *)
}.

Inductive outcome := Detected (at_time : Z) | Quiet.   (* ping/pong timeout raised at_time | nothing until the horizon *)

(* connection established at time t0: the thread first waits one interval, then one more in the loop
   condition before the first ping; the loop's first select starts at t0 *)
Definition t_init (t0 I T : Z) : tstate :=
  {| now := t0; last_ping := 0; last_pong := 0; next_ping := t0 + 2 * I; next_check := t0 + T; pings := [] |}.

Definition do_check (T : Z) (s : tstate) : bool := ping_expired (now s) (last_ping s) (last_pong s) T.

(* one step: advance to the earliest of {next arrival, next_ping, next_check}; at equal instants the order is
   arrival/loop first or ping thread first according to [ping_first] *)
Fixpoint t_run (fuel : nat) (I T : Z) (ping_first : bool) (arr : list (Z * arrival)) (horizon : Z) (s : tstate)
  : outcome * tstate :=
  match fuel with
  | O => (Quiet, s)
  | S k =>
    let ta := match arr with (t, _) :: _ => Some t | [] => None end in
    let loop_time := match ta with Some t => Z.min t (next_check s) | None => next_check s end in
    let ping_now := if ping_first then next_ping s <=? loop_time else next_ping s <? loop_time in
    if ping_now then
      if horizon <? next_ping s then (Quiet, s)
      else
      (* the ping thread wakes: last_ping_tm = time.time(); sock.ping(payload) *)
      t_run k I T ping_first arr horizon
            {| now := next_ping s; last_ping := next_ping s; last_pong := last_pong s;
               next_ping := next_ping s + I; next_check := next_check s; pings := pings s ++ [next_ping s] |}
    else
      if horizon <? loop_time then (Quiet, s)
      else
      (* the loop wakes: by an arrival (read, then check) or by the select timeout (check) *)
      let '(s1, arr') :=
        match arr with
        | (t, a) :: r =>
          if t <=? next_check s then
            ({| now := t; last_ping := last_ping s;
                last_pong := match a with
                             | APong => if last_pong s <? last_ping s then t else last_pong s   (* first pong after a ping only *)
                             | AData => last_pong s
                             end;
                next_ping := next_ping s; next_check := t + T; pings := pings s |}, r)
          else ({| now := next_check s; last_ping := last_ping s; last_pong := last_pong s;
                   next_ping := next_ping s; next_check := next_check s + T; pings := pings s |}, arr)
        | [] => ({| now := next_check s; last_ping := last_ping s; last_pong := last_pong s;
                    next_ping := next_ping s; next_check := next_check s + T; pings := pings s |}, arr)
        end in
      if do_check T s1 then (Detected (now s1), s1) else t_run k I T ping_first arr' horizon s1
  end.

Definition t_fuel (I T horizon : Z) (arr : list (Z * arrival)) : nat :=
  Z.to_nat (2 * (horizon / T + horizon / I + 4)) + 2 * length arr.

Definition keepalive (t0 I T : Z) (ping_first : bool) (arr : list (Z * arrival)) (horizon : Z) : outcome * tstate :=
  t_run (t_fuel I T (horizon - t0) arr) I T ping_first arr horizon (t_init t0 I T).
