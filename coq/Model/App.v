(* WebSocketApp.run_forever (websocket/_app.py, _dispatcher.py), untimed: the order of callbacks, the
   return value and the resources left behind, as a function of what the network and the callbacks do.
   Frames arrive already decoded and validated (C02/C03/C05 cover the bytes); each goes through the
   same [handle_frame] that WebSocket.recv_data_frame uses (Model/Conn.v).  Timing (ping thread,
   ping/pong timeout detection) is the subject of Model/PingTimer.v; here a ping timeout is an event. *)
From Coq Require Import ZArith List Bool.
From WS Require Import Base.Res Base.Bytes Base.GenPrelude Gen.GenUtils Gen.GenAbnf Gen.GenCore
  Model.Recv Model.Conn.
Import ListNotations.
Open Scope Z_scope.

(* what a user callback does when called *)
Inductive cbmode := Absent | Ret | RaiseExc | CallClose | RaiseKbd.

Record appcfg := {
  on_open : cbmode; on_reconnect : cbmode; on_message : cbmode; on_data : cbmode; on_error : cbmode;
  on_close : cbmode; on_ping : cbmode; on_pong : cbmode;
  reconnect : Z;               (* 0 = no automatic reconnection *)
  app_skip_utf8 : bool
}.

(* what happens on one established connection, in order *)
Inductive aev :=
  | AFrame (f : abnf)          (* a whole valid frame arrives *)
  | ABad (e : exn)             (* the receive call raises e: Protocol (illegal frame), ConnClosed (end of stream), Transport 104 (reset) *)
  | APingTimeout               (* check() finds the pong overdue *)
  | AOtherClose.               (* another thread calls app.close() while the loop is blocked *)

Inductive attempt :=
  | Refused                    (* connect(): ConnectionRefusedError *)
  | Rejected (status : Z)      (* handshake answered with a non-101 status *)
  | Established (evs : list aev).

(* exceptions as the callbacks see them *)
Inductive err := EExn (e : exn) | ERefused | ECallback | EKbd.

Inductive tev :=
  | TOpen | TReconnect
  | TData (d : bytes) (op : Z) (fin : bool) (is_text : bool)
  | TMessage (d : bytes) (is_text : bool)
  | TPing (d : bytes) | TPong (d : bytes)
  | TError (e : err)
  | TClose (code : option Z) (reason : option bytes)
  | TConnect                   (* a connection attempt starts (not a callback; used by C15) *)
  | TSockClosed                (* the transport of the current connection is released *)
  | TCloseFrameSent.           (* the client wrote a close frame *)

Record appst := {
  keep_running : bool;
  has_sock : bool;             (* app.sock is not None *)
  sock_connected : bool;       (* app.sock.connected *)
  sock_open : bool;            (* the underlying transport is open *)
  has_errored : bool;
  torn_down : bool;
  a_cf : cframe;
  trace : list tev
}.

Definition st_init : appst :=
  {| keep_running := true; has_sock := false; sock_connected := false; sock_open := false;
     has_errored := false; torn_down := false; a_cf := cf_init; trace := [] |}.

Definition emit (s : appst) (e : tev) : appst :=
  {| keep_running := keep_running s; has_sock := has_sock s; sock_connected := sock_connected s;
     sock_open := sock_open s; has_errored := has_errored s; torn_down := torn_down s; a_cf := a_cf s;
     trace := trace s ++ [e] |}.

Definition set_flags (s : appst) (keep hs conn op errd torn : bool) : appst :=
  {| keep_running := keep; has_sock := hs; sock_connected := conn; sock_open := op;
     has_errored := errd; torn_down := torn; a_cf := a_cf s; trace := trace s |}.
Definition set_cf (s : appst) (c : cframe) : appst :=
  {| keep_running := keep_running s; has_sock := has_sock s; sock_connected := sock_connected s;
     sock_open := sock_open s; has_errored := has_errored s; torn_down := torn_down s; a_cf := c;
     trace := trace s |}.

(* result of running a piece of code that may be cut short by KeyboardInterrupt *)
Inductive flow := Normal | Kbd.

(* WebSocket.close() on the app's socket: a close frame if still connected, then release.
   The wait for the peer's close frame consumes the following network events up to a close frame /
   an exception / a timeout; [rest] is what remains for nobody to read. *)
Fixpoint close_consumes (evs : list aev) : list aev :=
  match evs with
  | AFrame f :: r => if a_opcode f =? OPCODE_CLOSE then r else close_consumes r
  | _ :: r => r
  | [] => []
  end.

Definition sock_close (s : appst) : appst :=
  let s1 := if sock_connected s && sock_open s then emit s TCloseFrameSent else s in
  let s2 := if sock_open s1 then emit s1 TSockClosed else s1 in
  set_flags s2 (keep_running s2) (has_sock s2) false false (has_errored s2) (torn_down s2).

(* WebSocketApp.close(): keep_running = False; if sock: sock.close(); sock = None *)
Definition app_close (s : appst) : appst :=
  let s1 := set_flags s false (has_sock s) (sock_connected s) (sock_open s) (has_errored s) (torn_down s) in
  if has_sock s1 then
    let s2 := sock_close s1 in
    set_flags s2 false false false false (has_errored s2) (torn_down s2)
  else s1.

(* _callback(cb, args): [ev] is the trace entry of the call itself *)
Definition callback (cfg : appcfg) (m : cbmode) (ev : tev) (s : appst) : flow * appst :=
  match m with
  | Absent => (Normal, s)
  | Ret => (Normal, emit s ev)
  | RaiseExc =>
      let s1 := emit s ev in
      match on_error cfg with
      | Absent => (Normal, s1)
      | RaiseKbd => (Kbd, emit s1 (TError ECallback))
      | _ => (Normal, emit s1 (TError ECallback))      (* an on_error that raises an Exception is out of scope *)
      end
  | CallClose => (Normal, app_close (emit s ev))
  | RaiseKbd => (Kbd, emit s ev)
  end.

(* on_error is called with the error itself; what it does afterwards is ignored except Kbd *)
Definition report_error (cfg : appcfg) (e : err) (s : appst) : flow * appst :=
  match on_error cfg with
  | Absent => (Normal, s)
  | RaiseKbd => (Kbd, emit s (TError e))
  | CallClose => (Normal, app_close (emit s (TError e)))
  | _ => (Normal, emit s (TError e))
  end.

Definition close_args (cfg : appcfg) (frame : option abnf) : option Z * option bytes :=
  match on_close cfg, frame with
  | Absent, _ => (None, None)
  | _, None => (None, None)
  | _, Some f =>
      if 2 <=? zlen (a_data f) then (Some (256 * byte_at (a_data f) 0 + byte_at (a_data f) 1), Some (zdrop 2 (a_data f)))
      else (None, None)
  end.

(* teardown(close_frame): once only *)
Definition teardown (cfg : appcfg) (frame : option abnf) (s : appst) : flow * appst :=
  if torn_down s then (Normal, s)
  else
    let s1 := set_flags s false (has_sock s) (sock_connected s) (sock_open s) (has_errored s) true in
    let s2 := if has_sock s1 then sock_close s1 else s1 in
    let s3 := set_flags s2 false false false false (has_errored s2) true in
    let '(code, reason) := close_args cfg frame in
    callback cfg (on_close cfg) (TClose code reason) s3.

(* handleDisconnect(e, reconnecting).  Returns Kbd when e is a KeyboardInterrupt (it is re-raised). *)
Definition handle_disconnect (cfg : appcfg) (e : err) (reconnecting : bool) (s : appst) : flow * appst :=
  let s1 := set_flags s (keep_running s) (has_sock s) (sock_connected s) (sock_open s) true (torn_down s) in
  let '(fl, s2) := if reconnecting then (Normal, s1) else report_error cfg e s1 in
  match fl with
  | Kbd => let '(_, s3) := teardown cfg None s2 in (Kbd, s3)
  | Normal =>
    match e with
    | EKbd => let '(_, s3) := teardown cfg None s2 in (Kbd, s3)
    | _ => if negb (reconnect cfg =? 0) then (Normal, s2) else teardown cfg None s2
    end
  end.

(* what read() does with the value recv_data_frame returned *)
Definition deliver (cfg : appcfg) (op : Z) (f : abnf) (s : appst) : flow * appst * bool (* close frame: loop ends *) :=
  if op =? OPCODE_CLOSE then
    let '(fl, s1) := teardown cfg (Some f) s in (fl, s1, true)
  else if op =? OPCODE_PING then
    let '(fl, s1) := callback cfg (on_ping cfg) (TPing (a_data f)) s in (fl, s1, false)
  else if op =? OPCODE_PONG then
    let '(fl, s1) := callback cfg (on_pong cfg) (TPong (a_data f)) s in (fl, s1, false)
  else
    let is_text := (op =? OPCODE_TEXT) && negb (app_skip_utf8 cfg) in
    match callback cfg (on_data cfg) (TData (a_data f) op true is_text) s with
    | (Kbd, s1) => (Kbd, s1, false)
    | (Normal, s1) =>
      let '(fl, s2) := callback cfg (on_message cfg) (TMessage (a_data f) is_text) s1 in (fl, s2, false)
    end.

(* result of the dispatcher loop on one connection *)
Inductive loop_end := LoopDone | LoopExn (e : err) | LoopKbd.

(* Dispatcher.read: while keep_running: wait; read(); check() *)
Fixpoint dispatch_fuel (fuel : nat) (cfg : appcfg) (evs : list aev) (s : appst) : loop_end * appst :=
  match fuel with
  | O => (LoopDone, s)
  | S fuel' =>
  let dispatch_loop := dispatch_fuel fuel' in
  if negb (keep_running s) then (LoopDone, s)
  else
  match evs with
  | [] => (LoopDone, s)        (* the script says nothing more happens: silence forever; excluded by the theorems' hypotheses *)
  | AOtherClose :: r =>
      (* another thread runs app.close() to completion while the loop is blocked; then the loop notices *)
      let s1 := app_close s in
      dispatch_loop cfg (close_consumes r) s1
  | APingTimeout :: r => (LoopExn (EExn TimedOut), s)
  | ABad e :: r =>
      (* recv_data_frame raised; a lost connection also releases the transport (WebSocket._recv) *)
      let s1 := match e with
                | ConnClosed => let s0 := if sock_open s then emit s TSockClosed else s in
                                set_flags s0 (keep_running s0) (has_sock s0) false false (has_errored s0) (torn_down s0)
                | _ => s
                end in
      (LoopExn (EExn e), s1)
  | AFrame f :: r =>
      let st := handle_frame false (app_skip_utf8 cfg) true (sock_connected s) (a_cf s) f in
      let s1 := set_cf s (s_cf st) in
      (* automatic replies: a pong changes nothing observable here; the close reply is a close frame *)
      let s2 := if existsb (fun w => match w with WClose => true | _ => false end) (s_writes st)
                then set_flags (emit s1 TCloseFrameSent) (keep_running s1) (has_sock s1) false (sock_open s1)
                               (has_errored s1) (torn_down s1)
                else s1 in
      match s_out st with
      | Fail e => (LoopExn (EExn e), s2)
      | Again => dispatch_loop cfg r s2
      | Return op f' =>
        match deliver cfg op f' s2 with
        | (Kbd, s3, _) => (LoopKbd, s3)
        | (Normal, s3, true) => (LoopDone, s3)
        | (Normal, s3, false) => dispatch_loop cfg r s3
        end
      end
  end
  end.
(* every iteration consumes at least one event, so this fuel is never exhausted *)
Definition dispatch_loop (cfg : appcfg) (evs : list aev) (s : appst) : loop_end * appst :=
  dispatch_fuel (S (length evs)) cfg evs s.

(* setSock(reconnecting) on one attempt *)
Definition set_sock (cfg : appcfg) (a : attempt) (reconnecting : bool) (s : appst) : flow * appst :=
  (* if reconnecting and self.sock: self.sock.shutdown() *)
  let s0 := if reconnecting && has_sock s && sock_open s then
              set_flags (emit s TSockClosed) (keep_running s) true false false (has_errored s) (torn_down s)
            else s in
  let s1 := emit (set_flags s0 (keep_running s0) true false false (has_errored s0) (torn_down s0)) TConnect in
  match a with
  | Refused => handle_disconnect cfg ERefused reconnecting s1
  | Rejected st => handle_disconnect cfg (EExn (BadStatus st)) reconnecting s1
  | Established evs =>
    let s2 := set_cf (set_flags s1 (keep_running s1) true true true (has_errored s1) (torn_down s1)) cf_init in
    let '(fl, s3) := if reconnecting && negb (match on_reconnect cfg with Absent => true | _ => false end)
                     then callback cfg (on_reconnect cfg) TReconnect s2
                     else callback cfg (on_open cfg) TOpen s2 in
    match fl with
    | Kbd => handle_disconnect cfg EKbd reconnecting s3
    | Normal =>
      if negb (has_sock s3) then (Normal, s3)
      else
      match dispatch_loop cfg evs s3 with
      | (LoopDone, s4) => (Normal, s4)
      | (LoopExn e, s4) => handle_disconnect cfg e reconnecting s4
      | (LoopKbd, s4) => handle_disconnect cfg EKbd reconnecting s4
      end
    end
  end.

(* the outer loop: setSock(); while keep_running: sleep(reconnect); setSock(True) *)
Fixpoint attempts_loop (cfg : appcfg) (env : list attempt) (reconnecting : bool) (s : appst) : flow * appst :=
  match env with
  | [] => (Normal, s)          (* script exhausted (excluded by the theorems' hypotheses) *)
  | a :: rest =>
    match set_sock cfg a reconnecting s with
    | (Kbd, s1) => (Kbd, s1)
    | (Normal, s1) =>
      if negb (reconnect cfg =? 0) && keep_running s1 then attempts_loop cfg rest true s1
      else (Normal, s1)
    end
  end.

(* run_forever: returns (has_errored, final state) *)
Definition run_forever (cfg : appcfg) (env : list attempt) : bool * appst :=
  let s0 := st_init in
  let '(_, s1) := attempts_loop cfg env false s0 in
  (* except (KeyboardInterrupt, Exception): teardown() ; finally: teardown() *)
  let '(_, s2) := teardown cfg None s1 in
  (has_errored s2, s2).

(* a second run on the same object starts from a clean slate except the trace (C14 "can be run again") *)
Definition run_twice (cfg : appcfg) (env1 env2 : list attempt) : (bool * appst) * (bool * appst) :=
  (run_forever cfg env1, run_forever cfg env2).
