(* A small interpreter of public API calls on one WebSocket object, so that the
   correspondence check can run whole call sequences on the model. *)
From Coq Require Import ZArith List Bool.
From WS Require Import Base.Res Base.Bytes Base.GenPrelude Gen.GenUtils Gen.GenAbnf Gen.GenCore
  Model.Xport Model.Recv Model.Send Model.Conn.
Import ListNotations.
Open Scope Z_scope.

Inductive apiop :=
  | OpRecvFrame | OpRecvDataFrame (control : bool) | OpRecv
  | OpSend (op : Z) (p : bytes) | OpPing (p : bytes) | OpPong (p : bytes)
  | OpSendClose (st : Z) (r : bytes) | OpClose (st : Z) (r : bytes) | OpShutdown.

Inductive apires :=
  | RFrame (a : abnf) | RData (op : Z) (a : abnf) | RRecv (kind : Z) (d : bytes)
  | RInt (n : Z) | RUnit | RExn (e : exn).

(* WebSocket.recv(): text is decoded (CPython's strict UTF-8 decoder accepts exactly the
   well-formed sequences); a text payload that cannot be decoded -- only possible with validation
   off -- is handed over as bytes, unchanged; binary is returned as is, anything else gives "" *)
Definition ws_recv (w : ws) : apires * ws :=
  match ws_recv_data_frame (rdf_fuel w) false w with
  | (Raise e, w') => (RExn e, w')
  | (Ok (op, f), w') =>
    if op =? OPCODE_TEXT then
      if validate_utf8 (a_data f) then (RRecv 1 (a_data f), w') else (RRecv 2 (a_data f), w')
    else if op =? OPCODE_BINARY then (RRecv 2 (a_data f), w')
    else (RRecv 0 [], w')
  end.

Definition of_unit (r : res unit * ws) : apires * ws :=
  match r with (Ok _, w) => (RUnit, w) | (Raise e, w) => (RExn e, w) end.

Definition run_op (w : ws) (o : apiop) : apires * ws :=
  match o with
  | OpRecvFrame => match ws_recv_frame w with (Ok a, w') => (RFrame a, w') | (Raise e, w') => (RExn e, w') end
  | OpRecvDataFrame c =>
      match ws_recv_data_frame (rdf_fuel w) c w with
      | (Ok (op, a), w') => (RData op a, w')
      | (Raise e, w') => (RExn e, w')
      end
  | OpRecv => ws_recv w
  | OpSend op p => match ws_send w p op with (Ok n, w') => (RInt n, w') | (Raise e, w') => (RExn e, w') end
  | OpPing p => match ws_send w p OPCODE_PING with (Ok _, w') => (RUnit, w') | (Raise e, w') => (RExn e, w') end
  | OpPong p => match ws_send w p OPCODE_PONG with (Ok _, w') => (RUnit, w') | (Raise e, w') => (RExn e, w') end
  | OpSendClose st r => of_unit (ws_send_close w st r)
  | OpClose st r => of_unit (ws_close w st r)
  | OpShutdown => (RUnit, ws_shutdown w)
  end.

Fixpoint run_ops (w : ws) (os : list apiop) : list apires * ws :=
  match os with
  | [] => ([], w)
  | o :: r => let '(a, w1) := run_op w o in let '(rs, w2) := run_ops w1 r in (a :: rs, w2)
  end.
