(* Model of websocket/_url.py parse_url, together with the part of urllib.parse (CPython 3.12)
   it reaches: urlparse(url, scheme="http") -> urlsplit, _splitnetloc, the bracket checks,
   _splitparams, and the hostname / port / username / password properties of the result.

   DOMAIN OF THE MODEL.  Strings are lists of code points.  The model agrees with the Python code
   on URLs made of printable ASCII without the space (0x21..0x7E).  Outside the domain:
   - non-ASCII characters (str.lower, isdigit, isalpha and _checknetloc's NFKC test behave
     differently there);
   - C0 control characters and the space: urlsplit strips them from the front of its argument
     and deletes TAB, CR and LF everywhere; none of that is modelled;
   - the judgement of _check_bracketed_host on an IPv6 literal.  For "[...]" contents that do
     not start with "v" the model accepts exactly: a non-empty text over hex digits, ':' and '.'
     holding at least two ':' , optionally followed by '%' and a non-empty zone without '%';
     everything else is refused with ValueError, as ipaddress.ip_address does.  Contents the
     model accepts but ipaddress refuses (for example "1:2:3", ":::::") are outside the domain.
     Contents starting with "v" are judged with the IPvFuture regular expression
     v[0-9a-fA-F]+\..+  exactly as the code does.
   Every exception parse_url can raise on the domain is a ValueError, so the order in which the
   checks fail is not observable; the model nevertheless keeps the order of the code.

   No proofs here; see Proofs/UrlProof.v. *)
From Coq Require Import ZArith List Bool.
From WS Require Import Base.Res Base.Bytes Base.Str Base.StrMore Gen.GenHandshake.
Import ListNotations.
Open Scope Z_scope.

Definition s_ws : str := [119; 115].
Definition s_wss : str := [119; 115; 115].
Definition s_http : str := [104; 116; 116; 112].

(* urllib.parse.scheme_chars *)
Definition scheme_char (c : Z) : bool :=
  is_alpha c || is_digit c || (c =? 43) || (c =? 45) || (c =? 46).

(* urllib.parse.uses_params *)
Definition uses_params : list str :=
  [[]; [102; 116; 112]; [104; 100; 108]; [112; 114; 111; 115; 112; 101; 114; 111];
   [104; 116; 116; 112]; [105; 109; 97; 112]; [104; 116; 116; 112; 115]; [115; 104; 116; 116; 112];
   [114; 116; 115; 112]; [114; 116; 115; 112; 115]; [114; 116; 115; 112; 117]; [115; 105; 112];
   [115; 105; 112; 115]; [109; 109; 115]; [115; 102; 116; 112]; [116; 101; 108]].

(* urlsplit:  i = url.find(':');  if i > 0 and url[0].isascii() and url[0].isalpha() and every
   character of url[:i] is a scheme character:  scheme, url = url[:i].lower(), url[i+1:] *)
Definition detect_scheme (url dflt : str) : str * str :=
  match url with
  | c0 :: _ =>
      if is_alpha c0 then
        match split_once 58 url with
        | Some (pre, post) => if forallb scheme_char pre then (lower pre, post) else (dflt, url)
        | None => (dflt, url)
        end
      else (dflt, url)
  | [] => (dflt, url)
  end.

(* _splitnetloc(url, 2) applied to the text after "//": up to the first of "/?#" *)
Definition is_delim (c : Z) : bool := (c =? 47) || (c =? 63) || (c =? 35).
Definition split_netloc (r : str) : str * str := span (fun c => negb (is_delim c)) r.

(* _check_bracketed_host; false stands for ValueError *)
Definition ip6_char (c : Z) : bool := is_hex c || (c =? 58) || (c =? 46).
(* ipaddress.ip_address(h) succeeds with an IPv6Address (alphabet test only, see the header) *)
Definition check_ip_literal (h : str) : bool :=
  let '(addr, has_pct, zone) := partition 37 h in
  negb (null addr) && forallb ip6_char addr && (2 <=? count_char 58 addr)
  && (negb has_pct || (negb (null zone) && negb (contains_char 37 zone))).
(* re.match(r"\Av[a-fA-F0-9]+\..+\Z", "v" + r) *)
Definition check_ipvfuture (r : str) : bool :=
  let (hx, rest) := span is_hex r in
  negb (null hx) && match rest with 46 :: _ :: _ => true | _ => false end.
Definition check_bracketed_host (h : str) : bool :=
  match h with
  | c :: r => if c =? 118 then check_ipvfuture r else check_ip_literal h
  | [] => check_ip_literal h
  end.

(* the two bracket tests of urlsplit on the netloc; false stands for ValueError("Invalid IPv6 URL")
   or for the error of _check_bracketed_host *)
Definition netloc_brackets_ok (netloc : str) : bool :=
  let ob := contains_char 91 netloc in
  let cb := contains_char 93 netloc in
  if xorb ob cb then false
  else if ob && cb then
    let '(_, _, after_open) := partition 91 netloc in
    let '(bracketed, _, _) := partition 93 after_open in
    check_bracketed_host bracketed
  else true.

(* url.split(c, 1) when c occurs, (url, "") otherwise *)
Definition split_first (c : Z) (url : str) : str * str :=
  match split_once c url with Some (a, b) => (a, b) | None => (url, []) end.

(* url[:2] == '//' : the text after the two slashes *)
Definition after_slashes (url : str) : option str :=
  match url with
  | a :: b :: r => if (a =? 47) && (b =? 47) then Some r else None
  | _ => None
  end.

(* urlsplit(url, scheme): (scheme, netloc, path, query, fragment) *)
Definition urlsplit (url dflt : str) : res (str * str * str * str * str) :=
  let (scheme, url1) := detect_scheme url dflt in
  do nl_rest <- match after_slashes url1 with
                | Some r =>
                    let (netloc, rest) := split_netloc r in
                    if netloc_brackets_ok netloc then Ok (netloc, rest) else Raise ValueErr
                | None => Ok ([], url1)
                end;
  let (netloc, url2) := nl_rest : str * str in
  let (url3, fragment) := split_first 35 url2 in
  let (path, query) := split_first 63 url3 in
  Ok (scheme, netloc, path, query, fragment).

(* _splitparams, reached only when ';' occurs in url:
     if '/' in url: i = url.find(';', url.rfind('/')); if i < 0: return url, ''
     else:          i = url.find(';')
     return url[:i], url[i+1:]
   i.e. the first ';' of the last '/'-segment *)
Definition splitparams (url : str) : str * str :=
  match rsplit_once 47 url with
  | Some (dir, seg) =>
      match split_once 59 seg with
      | Some (a, b) => (dir ++ 47 :: a, b)
      | None => (url, [])
      end
  | None => split_first 59 url
  end.

Record parsed := mk_parsed {
  u_scheme : str; u_netloc : str; u_path : str; u_params : str; u_query : str; u_fragment : str }.

(* urlparse(url, scheme) *)
Definition urlparse (url dflt : str) : res parsed :=
  do sp <- urlsplit url dflt;
  let '(scheme, netloc, path, query, fragment) := sp in
  let (path', params) :=
    if mem_str scheme uses_params && contains_char 59 path then splitparams path else (path, []) in
  Ok (mk_parsed scheme netloc path' params query fragment).

(* _hostinfo: (hostname text, port text or None) *)
Definition hostinfo_of (netloc : str) : str * option str :=
  let '(_, _, hostinfo) := rpartition 64 netloc in
  let '(_, have_open_br, bracketed) := partition 91 hostinfo in
  let (hostname, port) :=
    if have_open_br : bool then
      let '(hostname, _, after) := partition 93 bracketed in
      let '(_, _, port) := partition 58 after in (hostname, port)
    else
      let '(hostname, _, port) := partition 58 hostinfo in (hostname, port) in
  (hostname, if null port then None else Some port).

(* .hostname: lower-cased except a %zone; None when empty *)
Definition hostname_of (netloc : str) : option str :=
  let (h, _) := hostinfo_of netloc in
  if null h then None
  else
    let '(name, pct, zone) := partition 37 h in
    Some (lower name ++ (if pct : bool then [37] else []) ++ zone).

(* .port: ValueError unless decimal digits with a value in 0..65535 *)
Definition port_of (netloc : str) : res (option Z) :=
  match snd (hostinfo_of netloc) with
  | None => Ok None
  | Some p =>
      if all_digits p then
        match parse_nat p with
        | Some n => if (0 <=? n) && (n <=? 65535) then Ok (Some n) else Raise ValueErr
        | None => Raise ValueErr
        end
      else Raise ValueErr
  end.

(* _userinfo: (username, password) *)
Definition userinfo_of (netloc : str) : option str * option str :=
  let '(userinfo, have_info, _) := rpartition 64 netloc in
  if have_info : bool then
    let '(username, have_password, password) := partition 58 userinfo in
    (Some username, if have_password : bool then Some password else None)
  else (None, None).

(* websocket._url.parse_url: (hostname, port, resource, is_secure) *)
Definition parse_url (url : str) : res (str * Z * str * bool) :=
  if negb (contains_char 58 url) then Raise ValueErr
  else
    match split_once 58 url with
    | None => Raise ValueErr
    | Some (scheme, rest) =>
        do p <- urlparse rest s_http;
        match hostname_of (u_netloc p) with
        | None => Raise ValueErr
        | Some hostname =>
            do popt <- port_of (u_netloc p);
            let port := match popt with Some n => n | None => 0 end in
            do port_sec <-
              (if str_eqb scheme s_ws then
                 Ok (if port =? 0 then default_port_ws else port, ws_is_secure)
               else if str_eqb scheme s_wss then
                 Ok (if port =? 0 then default_port_wss else port, wss_is_secure)
               else Raise ValueErr);
            let (port', is_secure) := port_sec : Z * bool in
            let resource0 := if null (u_path p) then [47] else u_path p in
            let resource1 := if null (u_params p) then resource0 else resource0 ++ 59 :: u_params p in
            let resource2 := if null (u_query p) then resource1 else resource1 ++ 63 :: u_query p in
            Ok (hostname, port', resource2, is_secure)
        end
    end.
