(* C20 model: websocket/_cookiejar.py (SimpleCookieJar.add / get), the Cookie line at the end of
   _handshake._get_handshake_headers, and the Set-Cookie merging of _http.read_headers.

   http.cookies.SimpleCookie parsing is NOT modelled.  The input for one response is the list of
   morsels (name, value, domain attribute) in the order SimpleCookie iterates them (a dict:
   insertion order, a repeated name replaces the value in place).  A Morsel's "domain" key is ""
   when the attribute is absent, so [None] and [Some ""] are the same falsy value.

   Strings are ASCII ([Str.lower] is str.lower() on ASCII only).  No proofs in this file. *)
From Coq Require Import ZArith List Bool.
From WS Require Import Base.Bytes Base.Str.
Import ListNotations.
Open Scope Z_scope.

Definition morsel := (str * str * option str)%type.   (* name, value, Domain attribute *)
Definition cookie := list (str * str).               (* SimpleCookie seen as name -> value *)
Definition jar := list (str * cookie).               (* self.jar : domain key -> SimpleCookie *)

Definition s_dot : str := [46].          (* "." *)
Definition s_semi_sp : str := [59; 32].  (* "; " *)
Definition s_eq : str := [61].           (* "=" *)

(* Python truthiness of a str / of a dict *)
Definition truthy {A} (l : list A) : bool := match l with [] => false | _ => true end.

(* cookie.update(simple_cookie): dict.update copies the morsels key by key, existing keys keep
   their position, new keys are appended *)
Fixpoint cookie_update (c : cookie) (ms : list morsel) : cookie :=
  match ms with
  | [] => c
  | (n, v, _) :: r => cookie_update (alist_set n v c) r
  end.

(*  if not domain.startswith("."): domain = f".{domain}"
    domain = domain.lower()                                   *)
Definition domain_key (d : str) : str :=
  lower (if starts_with s_dot d then d else s_dot ++ d).

(* body of the loop of SimpleCookieJar.add for one morsel v of simple_cookie (= all) *)
Definition jar_add_one (all : list morsel) (j : jar) (m : morsel) : jar :=
  match snd m with
  | None => j
  | Some d =>
    if truthy d then                                    (* if domain := v.get("domain") *)
      let key := domain_key d in
      let existing :=                                   (* self.jar.get(domain) if self.jar.get(domain) else SimpleCookie() *)
        match alist_get key j with
        | Some c => if truthy c then c else []
        | None => []
        end in
      alist_set key (cookie_update existing all) j      (* cookie.update(simple_cookie); self.jar[domain] = cookie *)
    else j
  end.

(* SimpleCookieJar.add(set_cookie), after simple_cookie = SimpleCookie(set_cookie).
   An empty / None header gives no morsels and stores nothing. *)
Definition jar_add (j : jar) (morsels : list morsel) : jar :=
  fold_left (jar_add_one morsels) morsels j.

(*  host.endswith(domain) or host == domain[1:]   (host already lower-cased) *)
Definition domain_match (hl : str) (domain : str) : bool :=
  ends_with domain hl || str_eqb hl (tl domain).

(* [ (k, v.value) for cookie in filter(None, cookies) for k, v in cookie.items() ] where cookies are
   the jar entries, in jar order, whose domain matches: the list before formatting and sorting *)
Definition jar_select (j : jar) (host : str) : list (str * str) :=
  let hl := lower host in
  flat_map (fun dc : str * cookie => if domain_match hl (fst dc) then snd dc else []) j.

Definition fmt_cookie (kv : str * str) : str := fst kv ++ s_eq ++ snd kv.   (* f"{k}={v.value}" *)

(* Python's str <= : lexicographic by code point, a proper prefix is smaller *)
Fixpoint str_leb (a b : str) : bool :=
  match a, b with
  | [], _ => true
  | _ :: _, [] => false
  | x :: a', y :: b' => if x <? y then true else if y <? x then false else str_leb a' b'
  end.

(* sorted(...) as an insertion sort (stable; stability is irrelevant for strings) *)
Fixpoint insert_str (x : str) (l : list str) : list str :=
  match l with
  | [] => [x]
  | y :: r => if str_leb x y then x :: l else y :: insert_str x r
  end.
Fixpoint sort_str (l : list str) : list str :=
  match l with [] => [] | x :: r => insert_str x (sort_str r) end.

Definition filter_none (l : list str) : list str := filter (fun s => truthy s) l.   (* filter(None, l) *)

(* SimpleCookieJar.get(host) *)
Definition jar_get (j : jar) (host : str) : str :=
  if truthy host then
    join s_semi_sp (filter_none (sort_str (map fmt_cookie (jar_select j host))))
  else [].

Definition opt_str (o : option str) : str := match o with Some s => s | None => [] end.

(*  server_cookie = CookieJar.get(host); client_cookie = options.get("cookie", None)
    if cookie := "; ".join(filter(None, [server_cookie, client_cookie])): headers.append(f"Cookie: {cookie}")
    Result: the value after "Cookie: ", or None when no header line is added. *)
Definition cookie_header (j : jar) (host : str) (client_cookie : option str) : option str :=
  let server_cookie := jar_get j host in
  let cookie := join s_semi_sp (filter_none [server_cookie; opt_str client_cookie]) in
  if truthy cookie then Some cookie else None.

(* read_headers: value of headers["set-cookie"] after one more "Set-Cookie: value" line
     if key.lower() == "set-cookie" and headers.get("set-cookie"):
         headers["set-cookie"] = headers.get("set-cookie") + "; " + value.strip()
     else: headers[key.lower()] = value.strip()
   (the parse of the merged string by SimpleCookie is outside the model) *)
Definition merge_set_cookie (existing : option str) (value : str) : str :=
  match existing with
  | Some e => if truthy e then e ++ s_semi_sp ++ strip value else strip value
  | None => strip value
  end.

(* the jar after a whole history of handshake responses (CookieJar is process-wide) *)
Definition jar_of_history (history : list (list morsel)) : jar := fold_left jar_add history [].
