(* Send side: frame construction (regenerated formatter), key source, API mapping. *)
From Coq Require Import ZArith List Bool.
From WS Require Import Base.Res Base.Bytes Base.GenPrelude Gen.GenAbnf.
Import ListNotations.
Open Scope Z_scope.

(* ABNF.create_frame(data, opcode, fin).format() with the key that get_mask_key(4) returned *)
Definition format_frame (fin opcode : Z) (data key : bytes) : res bytes :=
  let '(f, r1, r2, r3, op, m, d) := create_frame_fields data opcode fin in
  abnf_format f r1 r2 r3 op m d key.

(* The key source is a stream of draws; one frame consumes exactly one. *)
Definition keysrc := list bytes.

(* send_frame's write loop: each sock.send accepts between 1 and len bytes (short writes). *)
Fixpoint send_loop (fuel : nat) (data : bytes) (accept : list Z) (wire : list bytes)
  : option (list bytes * list Z) :=
  match data with
  | [] => Some (wire, accept)
  | _ :: _ =>
    match fuel with
    | O => None
    | S k =>
      let a := match accept with x :: _ => Z.max 1 (Z.min x (zlen data)) | [] => zlen data end in
      send_loop k (zdrop a data) (tl accept) (wire ++ [ztake a data])
    end
  end.

(* WebSocket.send_frame: returns (frame length, writes in order, remaining keys, remaining accepts) *)
Definition ws_send_frame (fin opcode : Z) (data : bytes) (keys : keysrc) (accept : list Z)
  : res (Z * list bytes * keysrc * list Z) :=
  match keys with
  | [] => Raise OutOfFuel
  | k :: ks =>
    do w <- format_frame fin opcode data k;
    match send_loop (S (length w)) w accept [] with
    | Some (wire, acc') => Ok (zlen w, wire, ks, acc')
    | None => Raise OutOfFuel
    end
  end.

(* API mapping (websocket/_core.py): send / send_binary / ping / pong are create_frame(payload, opcode) with FIN=1 *)
Definition OP_TEXT := OPCODE_TEXT.
Definition api_send (payload : bytes) (opcode : Z) := ws_send_frame 1 opcode payload.
Definition api_send_binary (payload : bytes) := ws_send_frame 1 OPCODE_BINARY payload.
Definition api_ping (payload : bytes) := ws_send_frame 1 OPCODE_PING payload.
Definition api_pong (payload : bytes) := ws_send_frame 1 OPCODE_PONG payload.
Definition close_body (status : Z) (reason : bytes) : bytes := be_encode 2 status ++ reason.
