(* Model of the proxy decision of websocket/_url.py: _is_ip_address, _is_subnet_address,
   _is_address_in_network, _is_no_proxy_host, get_proxy_info.

   The process environment (os.environ) is an association list from variable name to value.

   DOMAIN OF THE MODEL.
   - _is_ip_address is socket.inet_aton.  The model recognises ONLY canonical dotted quads
     a.b.c.d, each part a decimal number 0..255 written without leading zeros.  inet_aton also
     accepts short forms ("10.1", "1"), octal and hexadecimal parts ("010.1.1.1", "0x7f.1") and
     trailing white space followed by anything ("1.2.3.4 x"); strings that inet_aton accepts and
     that are not canonical dotted quads are outside the domain (as host names and as the
     address part of a no_proxy entry).
   - int(netmask) is Str.parse_int: optional surrounding white space, optional sign, decimal
     digits.  Python's int() also accepts '_' between digits ("1_6") and non-ASCII digits: outside.
   - proxy_port is an integer (the code also tolerates a string there).
   - The value of http_proxy / https_proxy is parsed by the urlparse model of Model/Url.v with
     its domain (printable ASCII; spaces are removed by the code before parsing).  It has been
     validated against the code for values of the form  http://[user[:pass]@]host[:port][/]
     and a few degenerate ones ("host:8080", "//host:3").  urllib.parse.unquote on the user name
     and the password is the identity in the model: a '%' in them is outside the domain.
   - get_proxy_info returns the port as  option Z : urlparse(...).port is None when the value
     names no port, and the code hands that None on.

   No proofs here; see Proofs/UrlProof.v. *)
From Coq Require Import ZArith List Bool.
From WS Require Import Base.Res Base.Bytes Base.Str Base.StrMore Gen.GenHandshake Model.Url.
Import ListNotations.
Open Scope Z_scope.

Definition k_no_proxy : str := [110; 111; 95; 112; 114; 111; 120; 121].
Definition k_NO_PROXY : str := [78; 79; 95; 80; 82; 79; 88; 89].
Definition k_http_proxy : str := [104; 116; 116; 112; 95; 112; 114; 111; 120; 121].
Definition k_HTTP_PROXY : str := [72; 84; 84; 80; 95; 80; 82; 79; 88; 89].
Definition k_https_proxy : str := [104; 116; 116; 112; 115; 95; 112; 114; 111; 120; 121].
Definition k_HTTPS_PROXY : str := [72; 84; 84; 80; 83; 95; 80; 82; 79; 88; 89].

Definition environ := list (str * str).
(* os.environ.get(key, dflt) *)
Definition env_get (key dflt : str) (env : environ) : str :=
  match alist_get key env with Some v => v | None => dflt end.

(* one part of a canonical dotted quad and its value *)
Definition nz_digit (c : Z) : bool := (49 <=? c) && (c <=? 57).
Definition canon_octet (t : str) : option Z :=
  match t with
  | [a] => if is_digit a then Some (a - 48) else None
  | [a; b] => if nz_digit a && is_digit b then Some ((a - 48) * 10 + (b - 48)) else None
  | [a; b; c] =>
      if nz_digit a && is_digit b && is_digit c then
        let v := (a - 48) * 100 + (b - 48) * 10 + (c - 48) in
        if v <=? 255 then Some v else None
      else None
  | _ => None
  end.

(* the four bytes socket.inet_aton returns, for canonical dotted quads only *)
Definition inet_aton (s : str) : option (list Z) :=
  match split_on 46 s with
  | [a; b; c; d] =>
      match canon_octet a, canon_octet b, canon_octet c, canon_octet d with
      | Some x, Some y, Some z, Some w => Some [x; y; z; w]
      | _, _, _, _ => None
      end
  | _ => None
  end.

Definition is_ip_address (addr : str) : bool :=
  match inet_aton addr with Some _ => true | None => false end.

(* struct.unpack("!I", socket.inet_aton(ip))[0] *)
Definition ip_to_int (ip : str) : option Z := option_map be_decode (inet_aton ip).

(* addr, netmask = hostname.split("/")  (ValueError unless exactly two parts -> False);
   _is_ip_address(addr) and 0 <= int(netmask) <= 32   (ValueError of int() -> False) *)
Definition is_subnet_address (hostname : str) : bool :=
  match split_on 47 hostname with
  | [addr; netmask] =>
      is_ip_address addr &&
      match parse_int netmask with Some n => subnet_prefix_ok n | None => false end
  | _ => false
  end.

(* Only called on (ip, net) with _is_ip_address(ip) and _is_subnet_address(net); the [false]
   of the other branches stands for exceptions that cannot happen there. *)
Definition is_address_in_network (ip net : str) : bool :=
  match ip_to_int ip, split_on 47 net with
  | Some ipaddr, [na; nm] =>
      match ip_to_int na, parse_int nm with
      | Some netaddr, Some n => address_in_network ipaddr (netmask_of_prefix n) netaddr
      | _, _ => false
      end
  | _, _ => false
  end.

(* the list _is_no_proxy_host works with: the option when it is a non-empty list, otherwise
   os.environ.get("no_proxy", os.environ.get("NO_PROXY", "")).replace(" ", "").split(",")
   when that value is non-empty, otherwise [] *)
Definition effective_no_proxy (no_proxy : option (list str)) (env : environ) : list str :=
  match no_proxy with
  | Some (x :: l) => x :: l
  | _ =>
      let v := remove_char 32 (env_get k_no_proxy (env_get k_NO_PROXY [] env) env) in
      if null v then [] else split_on 44 v
  end.

Definition is_no_proxy_host (hostname : str) (no_proxy : option (list str)) (env : environ) : bool :=
  let l := effective_no_proxy no_proxy env in
  if mem_str [42] l then true
  else if mem_str hostname l then true
  else if is_ip_address hostname then
    existsb (is_address_in_network hostname) (filter is_subnet_address l)
  else
    existsb (fun domain =>
               let endDomain := lstrip_char 46 domain in
               str_eqb hostname endDomain || ends_with (46 :: endDomain) hostname)
            (filter (starts_with [46]) l).

(* the branch of get_proxy_info for a non-empty environment value:
     proxy = urlparse(value)
     auth = (unquote(proxy.username), unquote(proxy.password)) if proxy.username else None
     return proxy.hostname, proxy.port, auth
   unquote(None) raises TypeError (a user name without ":password") *)
Definition proxy_of_value (value : str) : res (option str * option Z * option (str * str)) :=
  do p <- urlparse value [];
  let (user, pass) := userinfo_of (u_netloc p) in
  do auth <- match user with
             | Some (c :: u) =>
                 match pass with
                 | Some pw => Ok (Some (c :: u, pw))
                 | None => Raise (Internal TypeErr)
                 end
             | _ => Ok None
             end;
  do port <- port_of (u_netloc p);
  Ok (hostname_of (u_netloc p), port, auth).

(* (proxy_host, proxy_port, proxy_auth) *)
Definition get_proxy_info (hostname : str) (is_secure : bool)
    (proxy_host : option str) (proxy_port : Z) (proxy_auth : option (str * str))
    (no_proxy : option (list str)) (env : environ)
  : res (option str * option Z * option (str * str)) :=
  if is_no_proxy_host hostname no_proxy env then Ok (None, Some 0, None)
  else
    match proxy_host with
    | Some (c :: h) =>
        if proxy_port =? 0 then Raise ProxyErr
        else Ok (Some (c :: h), Some proxy_port, proxy_auth)
    | _ =>
        let value :=
          if is_secure
          then remove_char 32 (env_get k_https_proxy (env_get k_HTTPS_PROXY [] env) env)
          else remove_char 32 (env_get k_http_proxy (env_get k_HTTP_PROXY [] env) env) in
        if null value then Ok (None, Some 0, None) else proxy_of_value value
    end.
