(* Receive side, byte level: frame_buffer.recv_strict / recv_frame over an arbitrary
   transport script.  The loop pieces (shortage, condition, request size, buffer step,
   final split), header bit extraction, extended-length and mask requests and the
   validator are the definitions regenerated from websocket/_abnf.py. *)
From Coq Require Import ZArith List Bool.
From WS Require Import Base.Res Base.Bytes Base.GenPrelude Gen.GenAbnf Model.Xport.
Import ListNotations.
Open Scope Z_scope.

Definition hdr7 := (Z * Z * Z * Z * Z * Z * Z)%type.

(* frame_buffer: the three stage memos and the receive buffer (joined) *)
Record fbuf := { f_hdr : option hdr7; f_len : option Z; f_mask : option bytes; f_buf : bytes }.
Definition fb_init : fbuf := {| f_hdr := None; f_len := None; f_mask := None; f_buf := [] |}.
Definition fb_clear (fb : fbuf) : fbuf := {| f_hdr := None; f_len := None; f_mask := None; f_buf := f_buf fb |}.

(* a received frame: ABNF(fin, rsv1, rsv2, rsv3, opcode, has_mask, payload) *)
Record abnf := { a_fin : Z; a_rsv1 : Z; a_rsv2 : Z; a_rsv3 : Z; a_opcode : Z; a_mask : Z; a_data : bytes }.

(* while shortage > 0: bytes_ = recv(min(16384, shortage)); buffer.append(bytes_); shortage -= len(bytes_) *)
Fixpoint strict_loop (fuel : nat) (shortage : Z) (buf : bytes) (x : xport) : res Z * bytes * xport :=
  if strict_continue shortage then
    match fuel with
    | O => (Raise OutOfFuel, buf, x)
    | S k =>
      match sock_recv (strict_request shortage) x with
      | (Ok bs, x') => let '(sh', buf') := strict_step shortage buf bs in strict_loop k sh' buf' x'
      | (Raise e, x') => (Raise e, buf, x')
      end
    end
  else (Ok shortage, buf, x).

Definition recv_strict (fuel : nat) (bufsize : Z) (buf : bytes) (x : xport) : res bytes * bytes * xport :=
  match strict_loop fuel (strict_shortage bufsize buf) buf x with
  | (Ok sh, buf', x') => let '(r, buf'') := strict_finish bufsize sh buf' in (Ok r, buf'', x')
  | (Raise e, buf', x') => (Raise e, buf', x')
  end.

Definition set_buf (fb : fbuf) (b : bytes) : fbuf :=
  {| f_hdr := f_hdr fb; f_len := f_len fb; f_mask := f_mask fb; f_buf := b |}.

(* frame_buffer.recv_frame with [unmask] = ABNF.mask (abnf_mask) in the faithful model *)
Definition recv_frame_with (unmask : bytes -> bytes -> bytes) (fuel : nat) (skip_utf8 : bool)
    (fb : fbuf) (x : xport) : res abnf * fbuf * xport :=
  (* header *)
  let st1 := match f_hdr fb with
             | Some h => (Ok h, fb, x)
             | None =>
               match recv_strict fuel header_need (f_buf fb) x with
               | (Ok b, buf', x') => let h := parse_header b in
                   (Ok h, {| f_hdr := Some h; f_len := f_len fb; f_mask := f_mask fb; f_buf := buf' |}, x')
               | (Raise e, buf', x') => (Raise e, set_buf fb buf', x')
               end
             end in
  match st1 with
  | (Raise e, fb1, x1) => (Raise e, fb1, x1)
  | (Ok h, fb1, x1) =>
    let '(fin, rsv1, rsv2, rsv3, opcode, has_mask, _) := h in
    (* length *)
    let st2 := match f_len fb1 with
               | Some n => (Ok n, fb1, x1)
               | None =>
                 if length_need h =? 0 then
                   let n := length_decode h [] in
                   (Ok n, {| f_hdr := f_hdr fb1; f_len := Some n; f_mask := f_mask fb1; f_buf := f_buf fb1 |}, x1)
                 else
                 match recv_strict fuel (length_need h) (f_buf fb1) x1 with
                 | (Ok v, buf', x') => let n := length_decode h v in
                     (Ok n, {| f_hdr := f_hdr fb1; f_len := Some n; f_mask := f_mask fb1; f_buf := buf' |}, x')
                 | (Raise e, buf', x') => (Raise e, set_buf fb1 buf', x')
                 end
               end in
    match st2 with
    | (Raise e, fb2, x2) => (Raise e, fb2, x2)
    | (Ok n, fb2, x2) =>
      (* mask *)
      let st3 := match f_mask fb2 with
                 | Some k => (Ok k, fb2, x2)
                 | None =>
                   if mask_need has_mask =? 0 then
                     (Ok [], {| f_hdr := f_hdr fb2; f_len := f_len fb2; f_mask := Some []; f_buf := f_buf fb2 |}, x2)
                   else
                   match recv_strict fuel (mask_need has_mask) (f_buf fb2) x2 with
                   | (Ok k, buf', x') =>
                       (Ok k, {| f_hdr := f_hdr fb2; f_len := f_len fb2; f_mask := Some k; f_buf := buf' |}, x')
                   | (Raise e, buf', x') => (Raise e, set_buf fb2 buf', x')
                   end
                 end in
      match st3 with
      | (Raise e, fb3, x3) => (Raise e, fb3, x3)
      | (Ok k, fb3, x3) =>
        (* payload *)
        match recv_strict fuel n (f_buf fb3) x3 with
        | (Raise e, buf', x') => (Raise e, set_buf fb3 buf', x')
        | (Ok p, buf', x') =>
          let payload := if negb (has_mask =? 0) then unmask k p else p in
          let fb4 := fb_clear (set_buf fb3 buf') in
          match abnf_validate fin rsv1 rsv2 rsv3 opcode payload skip_utf8 with
          | Raise e => (Raise e, fb4, x')
          | Ok _ => (Ok {| a_fin := fin; a_rsv1 := rsv1; a_rsv2 := rsv2; a_rsv3 := rsv3;
                           a_opcode := opcode; a_mask := has_mask; a_data := payload |}, fb4, x')
          end
        end
      end
    end
  end.

Definition recv_frame := recv_frame_with abnf_mask.

(* enough fuel for any call on script l: every loop iteration consumes a byte or an event *)
Definition fuel_for (l : list ev) : nat := S (length (flatten l) + length l).
