(* HTTP response head reader: _socket.recv_line and _http.read_headers over the scripted transport.
   Domain: header bytes < 128 (ASCII).  A line containing a byte >= 128 that is not well-formed
   UTF-8 raises WebSocketException (as the code does); a well-formed non-ASCII line is outside the
   model (str.strip()/lower() then follow Unicode tables): it is reported as [Raise (Internal TypeErr)]
   and the correspondence generators stay away from it. *)
From Coq Require Import ZArith List Bool.
From WS Require Import Base.Res Base.Bytes Base.Str Base.StrInt Gen.GenUtils Model.Xport.
Import ListNotations.
Open Scope Z_scope.

(* recv_line: one byte per transport read until "\n" *)
Fixpoint recv_line (fuel : nat) (acc : bytes) (x : xport) : res bytes * xport :=
  match fuel with
  | O => (Raise OutOfFuel, x)
  | S k =>
    match sock_recv 1 x with
    | (Raise e, x') => (Raise e, x')
    | (Ok c, x') =>
      let acc' := acc ++ c in
      if match c with [10] => true | _ => false end then (Ok acc', x') else recv_line k acc' x'
    end
  end.

Definition headers := list (str * str).

Definition all_ascii (l : bytes) : bool := forallb (fun b => b <? 128) l.

Record head := { h_status : option Z; h_headers : headers; h_message : option str }.

(* `if not status` : None or 0 *)
Definition status_unset (s : option Z) : bool := match s with None => true | Some z => z =? 0 end.

Definition set_cookie_key : str := [115; 101; 116; 45; 99; 111; 111; 107; 105; 101].   (* "set-cookie" *)
Definition truthy_str (o : option str) : bool := match o with Some (_ :: _) => true | _ => false end.

Fixpoint read_headers_loop (fuel : nat) (h : head) (x : xport) : res head * xport :=
  match fuel with
  | O => (Raise OutOfFuel, x)
  | S k =>
    match recv_line (S (length (flatten (inbox x)) + length (inbox x))) [] x with
    | (Raise e, x') => (Raise e, x')
    | (Ok raw, x') =>
      if negb (all_ascii raw) then
        (if validate_utf8 raw then (Raise (Internal TypeErr), x') else (Raise WsGeneric, x'))
      else
      let line := strip raw in
      match line with
      | [] => (Ok h, x')
      | _ =>
        if status_unset (h_status h) then
          match split_sp2 line with
          | _ :: code :: rest =>
            match py_int code with
            | None => (Raise WsGeneric, x')
            | Some st =>
              read_headers_loop k {| h_status := Some st; h_headers := h_headers h;
                                     h_message := match rest with m :: _ => Some m | [] => h_message h end |} x'
            end
          | _ => (Raise WsGeneric, x')
          end
        else
          match split_once 58 line with
          | None => (Raise WsGeneric, x')
          | Some (key, value) =>
            let lk := lower key in
            let v := strip value in
            let hs := h_headers h in
            let hs' :=
              if str_eqb lk set_cookie_key && truthy_str (alist_get set_cookie_key hs) then
                match alist_get set_cookie_key hs with
                | Some old => alist_set set_cookie_key (old ++ [59; 32] ++ v) hs
                | None => hs
                end
              else alist_set lk v hs in
            read_headers_loop k {| h_status := h_status h; h_headers := hs'; h_message := h_message h |} x'
          end
      end
    end
  end.

Definition read_headers (x : xport) : res head * xport :=
  read_headers_loop (S (length (flatten (inbox x)) + length (inbox x)))
                    {| h_status := None; h_headers := []; h_message := None |} x.
