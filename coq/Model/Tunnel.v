(* _http._tunnel: the CONNECT exchange with an HTTP proxy. *)
From Coq Require Import ZArith List Bool.
From WS Require Import Base.Res Base.Bytes Base.Str Base.B64 Model.Xport Model.Http.
Import ListNotations.
Open Scope Z_scope.

Definition S_CONNECT := [67; 79; 78; 78; 69; 67; 84; 32].                       (* "CONNECT " *)
Definition S_HTTP11CRLF := [32; 72; 84; 84; 80; 47; 49; 46; 49; 13; 10].        (* " HTTP/1.1\r\n" *)
Definition S_HOSTHDR := [72; 111; 115; 116; 58; 32].                            (* "Host: " *)
Definition S_PROXYAUTH := [80; 114; 111; 120; 121; 45; 65; 117; 116; 104; 111; 114; 105; 122; 97; 116; 105; 111; 110; 58; 32;
                           66; 97; 115; 105; 99; 32].                            (* "Proxy-Authorization: Basic " *)
Definition CRLF2 := [13; 10].

(* auth = (user, password-or-None); `if auth and auth[0]` / `if auth[1]` are truthiness tests *)
Definition credentials (auth : option (str * option str)) : option str :=
  match auth with
  | Some (u :: us, pw) => Some ((u :: us) ++ match pw with Some (p :: ps) => 58 :: p :: ps | _ => [] end)
  | _ => None
  end.

Definition connect_request (host : str) (port : Z) (auth : option (str * option str)) : bytes :=
  S_CONNECT ++ host ++ [58] ++ str_of_Z port ++ S_HTTP11CRLF
  ++ S_HOSTHDR ++ host ++ [58] ++ str_of_Z port ++ CRLF2
  ++ match credentials auth with
     | Some c => S_PROXYAUTH ++ b64_encode c ++ CRLF2
     | None => []
     end
  ++ CRLF2.

Definition tunnel (x : xport) (host : str) (port : Z) (auth : option (str * option str)) : res unit * xport :=
  let x1 := xlog x (IWrite (connect_request host port auth)) in
  match read_headers x1 with
  | (Raise _, x2) => (Raise ProxyErr, x2)                 (* any failure reading the reply -> WebSocketProxyException *)
  | (Ok h, x2) => match h_status h with
                  | Some 200 => (Ok tt, x2)
                  | _ => (Raise ProxyErr, x2)
                  end
  end.
