(* Connection level: continuous_frame, recv_data_frame with its automatic replies,
   send / ping / pong / send_close / close / shutdown on one WebSocket object
   (websocket/_core.py and the continuous_frame class of _abnf.py). *)
From Coq Require Import ZArith List Bool.
From WS Require Import Base.Res Base.Bytes Base.GenPrelude Gen.GenUtils Gen.GenAbnf Gen.GenCore
  Model.Xport Model.Recv Model.Send.
Import ListNotations.
Open Scope Z_scope.

(* ---------------- continuous_frame ---------------- *)
(* cont_data = [opcode, data] | None ; recving_frames = opcode | None (0 stands for None: only its truth is used) *)
Record cframe := { c_data : option (Z * bytes); c_recving : Z }.
Definition cf_init : cframe := {| c_data := None; c_recving := 0 |}.

Definition is_msg_opcode (op : Z) : bool := (op =? OPCODE_TEXT) || (op =? OPCODE_BINARY).

Definition cf_validate (cf : cframe) (f : abnf) : res unit :=
  if (c_recving cf =? 0) && (a_opcode f =? OPCODE_CONT) then Raise Protocol
  else if negb (c_recving cf =? 0) && is_msg_opcode (a_opcode f) then Raise Protocol
  else Ok tt.

Definition cf_add (cf : cframe) (f : abnf) : cframe :=
  let cf1 := match c_data cf with
             | Some (op0, d) => {| c_data := Some (op0, d ++ a_data f); c_recving := c_recving cf |}
             | None => {| c_data := Some (a_opcode f, a_data f);
                          c_recving := if is_msg_opcode (a_opcode f) then a_opcode f else c_recving cf |}
             end in
  if negb (a_fin f =? 0) then {| c_data := c_data cf1; c_recving := 0 |} else cf1.

Definition cf_is_fire (fire_cont : bool) (f : abnf) : bool := negb (a_fin f =? 0) || fire_cont.

Definition with_data (f : abnf) (d : bytes) : abnf :=
  {| a_fin := a_fin f; a_rsv1 := a_rsv1 f; a_rsv2 := a_rsv2 f; a_rsv3 := a_rsv3 f;
     a_opcode := a_opcode f; a_mask := a_mask f; a_data := d |}.

(* extract: only called right after add, so cont_data is present; the None case is the AttributeError Python would raise *)
Definition cf_extract (fire_cont skip : bool) (cf : cframe) (f : abnf) : res (Z * abnf) * cframe :=
  match c_data cf with
  | None => (Raise (Internal TypeErr), cf)
  | Some (op0, d) =>
    let cf' := {| c_data := None; c_recving := c_recving cf |} in
    if negb fire_cont && (op0 =? OPCODE_TEXT) && negb skip && negb (validate_utf8 d)
    then (Raise Payload, cf')
    else (Ok (op0, with_data f d), cf')
  end.

(* ---------------- one received frame: what recv_data_frame does with it ---------------- *)
Inductive wreq := WPong (payload : bytes) | WClose.         (* automatic replies *)
Inductive outcome := Return (op : Z) (f : abnf) | Again | Fail (e : exn).
Record step := { s_cf : cframe; s_writes : list wreq; s_out : outcome }.

Definition handle_frame (fire_cont skip control connected : bool) (cf : cframe) (f : abnf) : step :=
  let op := a_opcode f in
  if is_msg_opcode op || (op =? OPCODE_CONT) then
    match cf_validate cf f with
    | Raise e => {| s_cf := cf; s_writes := []; s_out := Fail e |}
    | Ok _ =>
      let cf2 := cf_add cf f in
      if cf_is_fire fire_cont f then
        match cf_extract fire_cont skip cf2 f with
        | (Ok (op0, f'), cf3) => {| s_cf := cf3; s_writes := []; s_out := Return op0 f' |}
        | (Raise e, cf3) => {| s_cf := cf3; s_writes := []; s_out := Fail e |}
        end
      else {| s_cf := cf2; s_writes := []; s_out := Again |}
    end
  else if op =? OPCODE_CLOSE then
    {| s_cf := cf; s_writes := if connected then [WClose] else []; s_out := Return op f |}
  else if op =? OPCODE_PING then
    if ping_reply_ok (a_data f) then
      {| s_cf := cf; s_writes := [WPong (a_data f)]; s_out := if control then Return op f else Again |}
    else {| s_cf := cf; s_writes := []; s_out := Fail Protocol |}
  else if op =? OPCODE_PONG then
    {| s_cf := cf; s_writes := []; s_out := if control then Return op f else Again |}
  else {| s_cf := cf; s_writes := []; s_out := Again |}.

(* ---------------- the WebSocket object ---------------- *)
Record ws := {
  connected : bool;
  sock : option xport;          (* None after shutdown / loss *)
  past : list io;               (* transport calls made on transports already released *)
  fb : fbuf;
  cf : cframe;
  keys : list bytes;            (* mask-key source *)
  fire_cont : bool;
  skip_utf8 : bool
}.

Definition all_io (w : ws) : list io := past w ++ match sock w with Some x => iolog x | None => [] end.

Definition upd (w : ws) (c : bool) (s : option xport) (p : list io) (b : fbuf) (c' : cframe) (k : list bytes) : ws :=
  {| connected := c; sock := s; past := p; fb := b; cf := c'; keys := k;
     fire_cont := fire_cont w; skip_utf8 := skip_utf8 w |}.

(* shutdown(): if self.sock: close; sock = None; connected = False *)
Definition ws_shutdown (w : ws) : ws :=
  match sock w with
  | Some x => upd w false None (past w ++ iolog x ++ [IClose]) (fb w) (cf w) (keys w)
  | None => w
  end.

(* send_frame: format (draws the key) and then write; a missing transport raises ConnClosed after the draw *)
Definition ws_send (w : ws) (payload : bytes) (opcode : Z) : res Z * ws :=
  match keys w with
  | [] => (Raise OutOfFuel, w)
  | k :: ks =>
    match format_frame 1 opcode payload k with
    | Raise e => (Raise e, upd w (connected w) (sock w) (past w) (fb w) (cf w) ks)
    | Ok data =>
      match sock w with
      | None => (Raise ConnClosed, upd w (connected w) None (past w) (fb w) (cf w) ks)
      | Some x => (Ok (zlen data), upd w (connected w) (Some (xlog x (IWrite data))) (past w) (fb w) (cf w) ks)
      end
    end
  end.

Definition ws_send_close (w : ws) (status : Z) (reason : bytes) : res unit * ws :=
  if send_close_bad_status status then (Raise ValueErr, w)
  else
    let w1 := upd w false (sock w) (past w) (fb w) (cf w) (keys w) in
    match ws_send w1 (close_body status reason) OPCODE_CLOSE with
    | (Ok _, w2) => (Ok tt, w2)
    | (Raise e, w2) => (Raise e, w2)
    end.

(* recv_frame through WebSocket._recv: a lost connection releases the transport *)
Definition ws_recv_frame (w : ws) : res abnf * ws :=
  match sock w with
  | None => (Raise ConnClosed, upd w false None (past w) (fb w) (cf w) (keys w))
  | Some x =>
    match recv_frame (fuel_for (inbox x)) (skip_utf8 w) (fb w) x with
    | (Raise ConnClosed, fb', x') =>
        (Raise ConnClosed, upd w false None (past w ++ iolog x' ++ [IClose]) fb' (cf w) (keys w))
    | (r, fb', x') => (r, upd w (connected w) (Some x') (past w) fb' (cf w) (keys w))
    end
  end.

Fixpoint do_writes (w : ws) (ws_ : list wreq) : res unit * ws :=
  match ws_ with
  | [] => (Ok tt, w)
  | WPong p :: r =>
      match ws_send w p OPCODE_PONG with
      | (Ok _, w1) => do_writes w1 r
      | (Raise e, w1) => (Raise e, w1)
      end
  | WClose :: r =>
      match ws_send_close w close_default_status [] with
      | (Ok _, w1) => do_writes w1 r
      | (Raise e, w1) => (Raise e, w1)
      end
  end.

Fixpoint ws_recv_data_frame (fuel : nat) (control : bool) (w : ws) : res (Z * abnf) * ws :=
  match fuel with
  | O => (Raise OutOfFuel, w)
  | S k =>
    match ws_recv_frame w with
    | (Raise e, w1) => (Raise e, w1)
    | (Ok f, w1) =>
      let st := handle_frame (fire_cont w1) (skip_utf8 w1) control (connected w1) (cf w1) f in
      let w2 := upd w1 (connected w1) (sock w1) (past w1) (fb w1) (s_cf st) (keys w1) in
      match do_writes w2 (s_writes st) with
      | (Raise e, w3) => (Raise e, w3)
      | (Ok _, w3) =>
        match s_out st with
        | Return op f' => (Ok (op, f'), w3)
        | Fail e => (Raise e, w3)
        | Again => ws_recv_data_frame k control w3
        end
      end
    end
  end.

Definition rdf_fuel (w : ws) : nat :=
  match sock w with Some x => S (length (flatten (inbox x)) + length (inbox x)) | None => 1%nat end.

(* close(status, reason, timeout): the wait for the peer's close frame is bounded by the
   script: every Timeout event stands for `timeout` seconds without traffic. *)
Fixpoint close_wait (fuel : nat) (w : ws) : ws :=
  match fuel with
  | O => w
  | S k =>
    match ws_recv_frame w with
    | (Ok f, w1) => if a_opcode f =? OPCODE_CLOSE then w1 else close_wait k w1
    | (Raise _, w1) => w1
    end
  end.

Definition log_io (w : ws) (e : io) : ws :=
  match sock w with
  | Some x => upd w (connected w) (Some (xlog x e)) (past w) (fb w) (cf w) (keys w)
  | None => w
  end.

Definition ws_close (w : ws) (status : Z) (reason : bytes) : res unit * ws :=
  if negb (connected w) then (Ok tt, ws_shutdown w)
  else if close_bad_status status then (Raise ValueErr, w)
  else
    let w1 := upd w false (sock w) (past w) (fb w) (cf w) (keys w) in
    let w2 := match ws_send w1 (close_body status reason) OPCODE_CLOSE with
              | (Ok _, w2) =>
                  let w3 := log_io w2 ISetTimeout in
                  let w4 := close_wait (rdf_fuel w3) w3 in
                  log_io (log_io w4 ISetTimeout) IShutdown
              | (Raise _, w2) => w2
              end in
    (Ok tt, ws_shutdown w2).

Definition ws_init (x : xport) (ks : list bytes) (fire skip : bool) : ws :=
  {| connected := true; sock := Some x; past := []; fb := fb_init; cf := cf_init; keys := ks;
     fire_cont := fire; skip_utf8 := skip |}.
