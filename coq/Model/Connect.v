(* WebSocket.connect (websocket/_core.py) with _http.connect for the direct (no proxy, no TLS) path:
   URL parsing, address fall-through, opening handshake, redirects, and the cleanup on failure.
   Proxy tunnelling and TLS wrapping are modelled separately (Model/Proxy.v, Model/Tls.v). *)
From Coq Require Import ZArith List Bool.
From WS Require Import Base.Res Base.Bytes Base.Str Base.B64 Gen.GenHandshake Model.Xport Model.Http
  Model.Handshake Model.Url Model.Open.
Import ListNotations.
Open Scope Z_scope.

(* one network connection the environment will grant: how each resolved address answers, and what
   the accepting peer then sends *)
Record netconn := { n_addrs : list addr_outcome; n_script : list ev }.

Record cstate := {
  cs_connected : bool;
  cs_sock : option xport;
  cs_released : list xport;          (* transports no longer referenced, oldest first, with their logs *)
  cs_status : option Z;
  cs_subproto : option str;
  cs_rand : list bytes;              (* os.urandom(16) draws still to come *)
  cs_net : list netconn;             (* connections the network will still grant *)
  cs_socklog : list (list sockev);   (* _open_socket logs, one per connection opened *)
  cs_requests : list (bytes * str)   (* every request written, with the key sent in it *)
}.

Definition cs_init (rand : list bytes) (net : list netconn) : cstate :=
  {| cs_connected := false; cs_sock := None; cs_released := []; cs_status := None; cs_subproto := None;
     cs_rand := rand; cs_net := net; cs_socklog := []; cs_requests := [] |}.

Definition target := (str * Z * str * bool)%type.

(* _http.connect(url, options, proxy, socket) *)
Definition open_conn (url : str) (prepared : option xport) (st : cstate) : res (xport * target) * cstate :=
  match parse_url url with
  | Raise e => (Raise e, st)
  | Ok tg =>
    match prepared with
    | Some x => (Ok (x, tg), st)
    | None =>
      match cs_net st with
      | [] => (Raise AddressErr, st)                       (* nothing resolves *)
      | c :: rest =>
        let st1 := {| cs_connected := cs_connected st; cs_sock := cs_sock st; cs_released := cs_released st;
                      cs_status := cs_status st; cs_subproto := cs_subproto st; cs_rand := cs_rand st;
                      cs_net := rest; cs_socklog := cs_socklog st; cs_requests := cs_requests st |} in
        match n_addrs c with
        | [] => (Raise WsGeneric, st1)                     (* "Host not found." *)
        | _ =>
          let '(r, lg) := open_socket (n_addrs c) in
          let st2 := {| cs_connected := cs_connected st1; cs_sock := cs_sock st1; cs_released := cs_released st1;
                        cs_status := cs_status st1; cs_subproto := cs_subproto st1; cs_rand := cs_rand st1;
                        cs_net := cs_net st1; cs_socklog := cs_socklog st1 ++ [lg]; cs_requests := cs_requests st1 |} in
          match r with
          | Raise e => (Raise e, st2)
          | Ok _ => (Ok ({| inbox := n_script c; iolog := [] |}, tg), st2)
          end
        end
      end
    end
  end.

Definition url_scheme (url : str) : str := match split_once 58 url with Some (sc, _) => sc | None => url end.

(* handshake(sock, url, hostname, port, resource, **options) *)
Definition do_handshake (url : str) (tg : target) (o : hsopts) (x : xport) (st : cstate)
  : res hs_result * xport * cstate :=
  let '(host, port, resource, _) := tg in
  match cs_rand st with
  | [] => (Raise OutOfFuel, x, st)
  | draw :: rand' =>
    let st1 := {| cs_connected := cs_connected st; cs_sock := cs_sock st; cs_released := cs_released st;
                  cs_status := cs_status st; cs_subproto := cs_subproto st; cs_rand := rand';
                  cs_net := cs_net st; cs_socklog := cs_socklog st; cs_requests := cs_requests st |} in
    match get_handshake_headers resource (url_scheme url) host port o (b64_encode draw) [] with
    | Raise e => (Raise e, x, st1)
    | Ok (lines, key) =>
      let req := request_bytes lines in
      let st2 := {| cs_connected := cs_connected st1; cs_sock := cs_sock st1; cs_released := cs_released st1;
                    cs_status := cs_status st1; cs_subproto := cs_subproto st1; cs_rand := cs_rand st1;
                    cs_net := cs_net st1; cs_socklog := cs_socklog st1; cs_requests := cs_requests st1 ++ [(req, key)] |} in
      let '(r, x') := handshake x req key (o_subprotocols o) in
      (r, x', st2)
    end
  end.

Definition close_x (x : xport) : xport := xlog x IClose.

(* the `except:` clause of connect(): if self.sock: self.sock.close(); self.sock = None; raise *)
Definition fail_with (e : exn) (cur : option xport) (st : cstate) : res unit * cstate :=
  (Raise e,
   {| cs_connected := false; cs_sock := None;
      cs_released := cs_released st ++ match cur with Some x => [close_x x] | None => [] end;
      cs_status := cs_status st; cs_subproto := cs_subproto st; cs_rand := cs_rand st; cs_net := cs_net st;
      cs_socklog := cs_socklog st; cs_requests := cs_requests st |}).

(* for _ in range(redirect_limit): if status in SUPPORTED_REDIRECT_STATUSES: ... *)
Fixpoint redirect_loop (n : nat) (o : hsopts) (resp : hs_result) (x : xport) (st : cstate)
  : res (hs_result * xport) * option xport (* socket to close on failure *) * cstate :=
  match n with
  | O => (Ok (resp, x), Some x, st)
  | S k =>
    match resp with
    | HsOk _ _ _ => redirect_loop k o resp x st
    | HsRedirect _ hs =>
      match alist_get S_LOCATION hs with
      | Some (c :: r) =>
        let url := c :: r in
        match parse_url url with
        | Raise _ => (Raise WsGeneric, Some x, st)                 (* "Invalid redirect location": checked before the old socket is closed *)
        | Ok _ =>
        let xc := close_x x in                                    (* self.sock.close() *)
        match open_conn url None st with
        | (Raise e, st1) => (Raise e, Some xc, st1)                (* self.sock is still the closed socket *)
        | (Ok (x2, tg), st1) =>
          let st2 := {| cs_connected := cs_connected st1; cs_sock := cs_sock st1; cs_released := cs_released st1 ++ [xc];
                        cs_status := cs_status st1; cs_subproto := cs_subproto st1; cs_rand := cs_rand st1;
                        cs_net := cs_net st1; cs_socklog := cs_socklog st1; cs_requests := cs_requests st1 |} in
          match do_handshake url tg o x2 st2 with
          | (Raise e, x3, st3) => (Raise e, Some x3, st3)
          | (Ok resp', x3, st3) => redirect_loop k o resp' x3 st3
          end
        end
        end
      | _ => (Raise WsGeneric, Some x, st)                         (* redirect without Location *)
      end
    end
  end.

Definition ws_connect (url : str) (o : hsopts) (limit : Z) (prepared : option xport) (st : cstate)
  : res unit * cstate :=
  match open_conn url prepared st with
  | (Raise e, st1) => (Raise e, st1)                               (* raised before the try block *)
  | (Ok (x, tg), st1) =>
    match do_handshake url tg o x st1 with
    | (Raise e, x1, st2) => fail_with e (Some x1) st2
    | (Ok resp, x1, st2) =>
      match redirect_loop (Z.to_nat limit) o resp x1 st2 with
      | (Raise e, cur, st3) => fail_with e cur st3
      | (Ok (resp', x2), _, st3) =>
        match resp' with
        | HsRedirect _ _ => fail_with WsGeneric (Some x2) st3       (* "Too many redirects" *)
        | HsOk status _ sub =>
          (Ok tt, {| cs_connected := true; cs_sock := Some x2; cs_released := cs_released st3;
                     cs_status := Some status; cs_subproto := sub; cs_rand := cs_rand st3; cs_net := cs_net st3;
                     cs_socklog := cs_socklog st3; cs_requests := cs_requests st3 |})
        end
      end
    end
  end.
