(* C11 model: the TLS decision logic of websocket/_http.py (_ssl_socket, _wrap_sni_socket and the
   is_secure branch of connect), as a total function from the documented sslopt keys and the
   WEBSOCKET_CLIENT_CA_BUNDLE environment to a "plan": what the SSLContext is told and what
   wrap_socket is called with.  OpenSSL's verification itself is not modelled.

   Modelled, not verified: the two coupling rules of CPython's ssl.SSLContext
     - assigning verify_mode = CERT_NONE while check_hostname is True raises ValueError;
     - assigning check_hostname = True while verify_mode == CERT_NONE sets verify_mode = CERT_REQUIRED;
     - verify_mode outside {0,1,2} raises ValueError;
   (harness/corr/tls_validate.py checks them against the real ssl module).

   Outside the option space: sslopt values of the wrong type (cert_reqs=None, ...), keyfile /
   password / do_handshake_on_connect / suppress_ragged_eofs (passed through), and
   context.keylog_filename = os.environ.get("SSLKEYLOGFILE") (does not touch verification).
   No proofs in this file. *)
From Coq Require Import ZArith List Bool.
From WS Require Import Base.Res Base.Bytes Base.Str.
Import ListNotations.
Open Scope Z_scope.

Definition CERT_NONE : Z := 0.
Definition CERT_OPTIONAL : Z := 1.
Definition CERT_REQUIRED : Z := 2.

(* the user's sslopt dict: None = key absent *)
Record sslopt := mk_sslopt {
  cert_reqs : option Z;
  check_hostname : option bool;
  ca_certs : option str;
  ca_cert_path : option str;
  context : bool;                 (* a custom SSLContext object was supplied (truthy) *)
  server_hostname : option str;
  certfile : bool;                (* presence flags: the value does not enter any decision *)
  ssl_version : bool;
  ciphers : bool;
  cert_chain : bool;
  ecdh_curve : bool
}.

Definition empty_opt : sslopt :=
  mk_sslopt None None None None false None false false false false false.

(* os.environ.get("WEBSOCKET_CLIENT_CA_BUNDLE") and what os.path.isfile / isdir say about it *)
Inductive env_bundle :=
  | NoBundle
  | BundleFile (path : str)
  | BundleDir (path : str)
  | BundleMissing (path : str).

Definition env_path (e : env_bundle) : option str :=
  match e with NoBundle => None | BundleFile p | BundleDir p | BundleMissing p => Some p end.
Definition env_isfile (e : env_bundle) : bool := match e with BundleFile _ => true | _ => false end.
Definition env_isdir (e : env_bundle) : bool := match e with BundleDir _ => true | _ => false end.

Definition truthy (s : str) : bool := match s with [] => false | _ => true end.
Definition truthy_o (o : option str) : bool := match o with Some s => truthy s | None => false end.
Definition is_none {A} (o : option A) : bool := match o with None => true | Some _ => false end.

(* ---- ssl.SSLContext: the two attributes and their setters ---- *)
Record ctx := mk_ctx { c_check : bool; c_verify : Z }.

(* SSLContext(protocol): PROTOCOL_TLS_CLIENT starts with check_hostname=True, CERT_REQUIRED; the
   other protocol constants start with False, CERT_NONE.  [explicit] = the user gave ssl_version;
   the model then starts from the weaker state (Proofs/TlsProof.v shows the start state never
   matters, because both attributes are always assigned). *)
Definition ctx_new (explicit : bool) : ctx :=
  if explicit then mk_ctx false CERT_NONE else mk_ctx true CERT_REQUIRED.

Definition set_check_hostname (b : bool) (c : ctx) : ctx :=
  if b && (c_verify c =? CERT_NONE) then mk_ctx true CERT_REQUIRED else mk_ctx b (c_verify c).

Definition set_verify_mode (n : Z) (c : ctx) : res ctx :=
  if (n =? CERT_NONE) && c_check c then Raise ValueErr
  else if (0 <=? n) && (n <=? 2) then Ok (mk_ctx (c_check c) n)
  else Raise ValueErr.

(* ---- the plan ---- *)
Record wrap_plan := mk_wrap {
  custom_context : bool;      (* the caller's SSLContext is used as it is: the fields below up to
                                 explicit_protocol are dummies (verify_mode = -1), server_name is real *)
  verify_mode : Z;            (* context.verify_mode at wrap time *)
  check_host : bool;          (* context.check_hostname at wrap time *)
  server_name : str;          (* wrap_socket(server_hostname=...): SNI and the name that is checked *)
  ca_file : option str;       (* load_verify_locations(cafile=, capath=) arguments, when called *)
  ca_path : option str;
  load_default_certs : bool;  (* load_default_certs(Purpose.SERVER_AUTH) called *)
  loads_client_cert : bool;   (* load_cert_chain called (certfile or cert_chain) *)
  sets_ciphers : bool;
  sets_ecdh_curve : bool;
  explicit_protocol : bool    (* SSLContext(sslopt["ssl_version"]) instead of PROTOCOL_TLS_CLIENT *)
}.

Inductive plan := NoWrap | Wrap (w : wrap_plan).

Definition custom_plan (hostname : str) : wrap_plan :=
  mk_wrap true (-1) false hostname None None false false false false false.

(* _wrap_sni_socket(sock, sslopt, hostname, check_hostname) on the merged sslopt:
   [cr] = sslopt["cert_reqs"] (always present after the merge), [cafile]/[capath] = merged
   ca_certs / ca_cert_path.  The check_hostname parameter is unused by the code. *)
Definition wrap_sni_socket (opt : sslopt) (cr : Z) (cafile capath : option str) (hostname : str)
  : res wrap_plan :=
  if context opt then                                     (* context = sslopt.get("context"); if not context: ... *)
    Ok (custom_plan hostname)
  else
    let c0 := ctx_new (ssl_version opt) in                (* ssl.SSLContext(sslopt.get("ssl_version", PROTOCOL_TLS_CLIENT)) *)
    (* if sslopt.get("cert_reqs", CERT_NONE) != CERT_NONE:
           if cafile or capath: load_verify_locations(cafile=cafile, capath=capath)
           elif hasattr(context, "load_default_certs"): load_default_certs(Purpose.SERVER_AUTH) *)
    let verifies := negb (cr =? CERT_NONE) in
    let locations := verifies && (truthy_o cafile || truthy_o capath) in
    let defaults := verifies && negb (truthy_o cafile || truthy_o capath) in
    (* if sslopt.get("cert_reqs", CERT_NONE) == CERT_NONE and not sslopt.get("check_hostname", False):
           context.check_hostname = False; context.verify_mode = CERT_NONE
       else:
           context.check_hostname = sslopt.get("check_hostname", True)
           context.verify_mode = sslopt.get("cert_reqs", CERT_REQUIRED)           *)
    let ch_default_false := match check_hostname opt with Some b => b | None => false end in
    let ch_default_true := match check_hostname opt with Some b => b | None => true end in
    do c2 <- (if (cr =? CERT_NONE) && negb ch_default_false
              then set_verify_mode CERT_NONE (set_check_hostname false c0)
              else set_verify_mode cr (set_check_hostname ch_default_true c0));
    Ok (mk_wrap false (c_verify c2) (c_check c2) hostname
                (if locations then cafile else None) (if locations then capath else None)
                defaults
                (certfile opt || cert_chain opt)           (* sslopt.get("certfile") / "cert_chain" in sslopt *)
                (ciphers opt) (ecdh_curve opt) (ssl_version opt)).

(* _ssl_socket(sock, user_sslopt, hostname) *)
Definition ssl_socket (opt : sslopt) (env : env_bundle) (url_host : str) : res wrap_plan :=
  (* sslopt = {"cert_reqs": CERT_REQUIRED}; sslopt.update(user_sslopt) *)
  let cr := match cert_reqs opt with Some z => z | None => CERT_REQUIRED end in
  (* cert_path = os.environ.get("WEBSOCKET_CLIENT_CA_BUNDLE") *)
  let cert_path := env_path env in
  let '(cafile, capath) :=
    if truthy_o cert_path && env_isfile env && is_none (ca_certs opt)
    then (cert_path, ca_cert_path opt)                     (* sslopt["ca_certs"] = cert_path *)
    else if truthy_o cert_path && env_isdir env && is_none (ca_cert_path opt)
    then (ca_certs opt, cert_path)                         (* sslopt["ca_cert_path"] = cert_path *)
    else (ca_certs opt, ca_cert_path opt) in
  (* if sslopt.get("server_hostname", None): hostname = sslopt["server_hostname"] *)
  let hostname := if truthy_o (server_hostname opt)
                  then match server_hostname opt with Some s => s | None => url_host end
                  else url_host in
  wrap_sni_socket opt cr cafile capath hostname.

(* the is_secure branch of connect / _start_proxied_socket (HAVE_SSL holds) *)
Definition tls_plan (is_secure : bool) (opt : sslopt) (env : env_bundle) (url_host : str) : res plan :=
  if is_secure then do w <- ssl_socket opt env url_host; Ok (Wrap w) else Ok NoWrap.

(* the same with the HAVE_SSL test: "SSL not available." is a WebSocketException *)
Definition connect_tls (have_ssl is_secure : bool) (opt : sslopt) (env : env_bundle) (url_host : str)
  : res plan :=
  if is_secure then if have_ssl then tls_plan true opt env url_host else Raise WsGeneric
  else Ok NoWrap.

(* ---- order of the transport actions ---- *)
Inductive step := OpenSocket | Tunnel | TlsWrap | HandshakeWrite | SocksConnect | CallerSocket.

(* connect(): _open_socket; if need_tunnel: _tunnel (HTTP CONNECT); if is_secure: _ssl_socket;
   then WebSocket.connect calls handshake(), which writes the request *)
Definition connect_order (is_secure need_tunnel : bool) : list step :=
  [OpenSocket] ++ (if need_tunnel then [Tunnel] else [])
               ++ (if is_secure then [TlsWrap] else []) ++ [HandshakeWrite].

(* all three ways through connect() *)
Inductive conn_path :=
  | PathCallerSocket                      (* connect(..., socket=s): "if socket: return socket, ..." *)
  | PathSocks                             (* socks4/4a/5/5h proxy: _start_proxied_socket *)
  | PathDirect (need_tunnel : bool).

Definition connect_order_full (p : conn_path) (is_secure : bool) : list step :=
  match p with
  | PathCallerSocket => [CallerSocket; HandshakeWrite]
  | PathSocks => [SocksConnect] ++ (if is_secure then [TlsWrap] else []) ++ [HandshakeWrite]
  | PathDirect t => connect_order is_secure t
  end.
